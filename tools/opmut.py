#!/usr/bin/env python3
"""Operator-level mutants (classic mutation testing) as a second, mechanical source of seeded changes.

usage: opmut.py <seed> <count> [<out.jsonl>]

For each sampled site: apply a one-token change in a scratch worktree of /repo (never /repo itself),
keep it only if the workspace still compiles and the 53 tests pass, then run the quick checks mapped
to the file (scratch copy of /verif, RSSV_REPO pointing at the worktree). One JSON line per mutant.
Survivors (tests pass, no mapped check fires) are then run against all 18 quick checks.
"""
import json, os, random, re, subprocess, sys, time

WT = "/tmp/opmut_repo"
VC = "/tmp/opmut_verif"
ALL = ["C%02d" % i for i in range(1, 19)]

FILES = {
    "model/src/network.rs": ["C17", "C01", "C02", "C07"],
    "model/src/network/nodes.rs": ["C17", "C01"],
    "model/src/json_serialisation/mod.rs": ["C17", "C01", "C07", "C03"],
    "solution/src/tour.rs": ["C12", "C09", "C13"],
    "solution/src/tour/modifications.rs": ["C12", "C09", "C04"],
    "solution/src/path.rs": ["C12", "C13"],
    "solution/src/segment.rs": ["C12", "C11"],
    "solution/src/schedule.rs": ["C09", "C10", "C13"],
    "solution/src/schedule/modifications.rs": ["C13", "C10", "C09"],
    "solution/src/transition.rs": ["C15", "C05", "C04"],
    "solution/src/transition/modifications.rs": ["C15", "C04"],
    "solution/src/transition/transition_cycle.rs": ["C15", "C04"],
    "solution/src/json_serialisation.rs": ["C03", "C05", "C16"],
    "solver/src/min_cost_flow_solver.rs": ["C14", "C06", "C07"],
    "solver/src/local_search/neighborhood/mod.rs": ["C11", "C08"],
    "solver/src/local_search/neighborhood/swaps/path_exchange.rs": ["C11", "C08"],
    "solver/src/local_search/neighborhood/swaps/spawn_vehicle_for_maintenance.rs": ["C11", "C08"],
    "solver/src/local_search/neighborhood/swaps/add_trip_for_hitch_hiking.rs": ["C11", "C08"],
    "solver/src/local_search/neighborhood/swaps/remove_single_node.rs": ["C11", "C08"],
    "solver/src/transition_local_search/mod.rs": ["C15", "C16", "C05"],
    "solver/src/transition_local_search/transition_neighborhood.rs": ["C15", "C16", "C05"],
    "solver/src/transition_local_search/transition_objective.rs": ["C15", "C16", "C08"],
    "solver/src/transition_cycle_tsp/mod.rs": ["C15", "C16"],
    "solver/src/transition_cycle_tsp/transition_cycle_neighborhood.rs": ["C15", "C16"],
    "solver/src/local_search/mod.rs": ["C08", "C06"],
    "solver/src/one_node_per_tour.rs": ["C06", "C08"],
    "solver/src/objective.rs": ["C08", "C04"],
    "server/src/lib.rs": ["C16", "C08", "C05"],
    "solution/src/train_formation.rs": ["C13", "C10", "C03"],
    "solution/src/vehicle.rs": ["C10", "C13"],
    "model/src/locations.rs": ["C17", "C01"],
    "model/src/base_types/distance.rs": ["C09", "C04", "C17"],
    "model/src/network/depot.rs": ["C17", "C02"],
    "model/src/vehicle_types.rs": ["C17", "C07"],
}

OPS = [
    (re.compile(r" <= "), [" < "]),
    (re.compile(r" >= "), [" > "]),
    (re.compile(r" < "), [" <= "]),
    (re.compile(r" > "), [" >= "]),
    (re.compile(r" == "), [" != "]),
    (re.compile(r" != "), [" == "]),
    (re.compile(r" && "), [" || "]),
    (re.compile(r" \|\| "), [" && "]),
    (re.compile(r" \+ 1\b"), [" + 0", " + 2"]),
    (re.compile(r" - 1\b"), [" - 0"]),
    (re.compile(r"\.min\("), [".max("]),
    (re.compile(r"\.max\("), [".min("]),
    (re.compile(r"\.first\(\)"), [".last()"]),
    (re.compile(r"\.last\(\)"), [".first()"]),
    (re.compile(r"\.saturating_sub\("), [".wrapping_sub("]),
    (re.compile(r"\.div_ceil\("), [".div_euclid("]),
    (re.compile(r"\.rev\(\)"), [""]),
    (re.compile(r"\.is_some\(\)"), [".is_none()"]),
    (re.compile(r"\.is_none\(\)"), [".is_some()"]),
    (re.compile(r"\.any\("), [".all("]),
    (re.compile(r"\.all\("), [".any("]),
    (re.compile(r"\.\.="), [".."]),
    (re.compile(r"\bcontinue;"), ["break;"]),
    # second pass (OPMUT_PASS=2): arithmetic and negation
    (re.compile(r" \+ (?![01]\b)"), [" - "]),
    (re.compile(r" - (?![01]\b)"), [" + "]),
    (re.compile(r" \* "), [" / "]),
    (re.compile(r"\bif !"), ["if "]),
    (re.compile(r"\.filter\(\|[^|]*\| !"), None),
]
FIRST_PASS_OPS = 23


def sh(cmd, timeout=3600, cwd=None, env=None):
    e = dict(os.environ)
    e["CARGO_NET_OFFLINE"] = "true"
    if env:
        e.update(env)
    try:
        p = subprocess.run(cmd, shell=True, cwd=cwd, env=e, stdout=subprocess.PIPE, stderr=subprocess.STDOUT, timeout=timeout, text=True)
        return p.returncode, p.stdout
    except subprocess.TimeoutExpired as ex:
        return 124, (ex.stdout or "") if isinstance(ex.stdout, str) else ""


def sites():
    out = []
    for f in FILES:
        path = os.path.join(WT, f)
        if not os.path.exists(path):
            continue
        lines = open(path).read().split("\n")
        in_tests = False
        for i, l in enumerate(lines):
            st = l.strip()
            if re.match(r"(pub )?mod tests\s*\{", st):
                in_tests = True
            if in_tests:
                continue
            if st.startswith("//") or st.startswith("#[") or "cfg(rssched_verif)" in l or "verif_hooks" in l:
                continue
            if st.startswith("use ") or st.startswith("pub use "):
                continue
            code = l.split("//")[0]
            if "println!" in code or "format!" in code or "panic!" in code or "assert" in code or "expect(" in code:
                continue
            ops = OPS[FIRST_PASS_OPS:] if os.environ.get("OPMUT_PASS") == "2" else OPS[:FIRST_PASS_OPS]
            for rx, reps in ops:
                if reps is None:
                    for m in rx.finditer(code):
                        out.append((f, i, m.end() - 1, m.end(), ""))
                    continue
                for m in rx.finditer(code):
                    # generics / arrows are not comparisons
                    if rx.pattern in (" < ", " > ") and ("->" in code or "fn " in code or "impl" in code or "<'" in code):
                        continue
                    for r in reps:
                        out.append((f, i, m.start(), m.end(), r))
    return out


def main():
    seed = int(sys.argv[1])
    count = int(sys.argv[2])
    outp = sys.argv[3] if len(sys.argv) > 3 else "/tmp/opmut/log.jsonl"
    os.makedirs(os.path.dirname(outp), exist_ok=True)
    head = subprocess.check_output("git -C /repo rev-parse HEAD", shell=True, text=True).strip()
    if not os.path.exists(WT):
        rc, o = sh(f"git -C /repo worktree add -q --detach {WT} HEAD")
        assert rc == 0, o
    sh(f"git -C {WT} checkout -q --detach {head}; git -C {WT} checkout -q -- .")
    if not os.path.exists(os.path.join(WT, "Cargo.lock")):
        sh(f"cp /repo/Cargo.lock {WT}/Cargo.lock")
    sh(f"mkdir -p {VC}; rsync -a --delete --exclude target --exclude .git --exclude replays --exclude evidence /verif/ {VC}/; mkdir -p {VC}/replays {VC}/evidence")
    all_sites = sites()
    rnd = random.Random(seed)
    rnd.shuffle(all_sites)
    done = 0
    tried = 0
    seen = set()
    if os.path.exists(outp):
        for l in open(outp):
            try:
                x = json.loads(l)
                seen.add((x["file"], x["line"], x["new"]))
                if x["status"] != "killed_by_build_or_tests":
                    done += 1
            except Exception:
                pass
    for (f, i, a, b, r) in all_sites:
        if done >= count:
            break
        tried += 1
        path = os.path.join(WT, f)
        src = open(path).read()
        lines = src.split("\n")
        old = lines[i]
        new = old[:a] + r + old[b:]
        if (f, i + 1, new.strip()) in seen:
            continue
        lines[i] = new
        open(path, "w").write("\n".join(lines))
        rec = {"file": f, "line": i + 1, "old": old.strip(), "new": new.strip(), "repo_head": head}
        t0 = time.time()
        rc, o = sh("cargo test --workspace --offline 2>&1", timeout=1500, cwd=WT)
        passed = sum(int(x) for x in re.findall(r"test result: ok\. (\d+) passed", o))
        if rc != 0 or passed < 53:
            rec["status"] = "killed_by_build_or_tests"
            rec["passed"] = passed
        else:
            res = {}
            caught = False
            for prop in FILES[f]:
                rc, o = sh(f"./check {prop} quick", timeout=2400, cwd=VC, env={"RSSV_REPO": WT, "RSSV_VERIF_DIR": VC, "RSSV_TARGET_DIR": VC + "/target"})
                ids = sorted(set(re.findall(r"^violation: (\S+)", o, re.M)))
                res[prop] = {"exit": rc, "checks": ids[:6]}
                if rc == 1:
                    caught = True
                    break
            if not caught:
                for prop in ["C06", "C09", "C10", "C13", "C04", "C01", "C08", "C12", "C15", "C16"]:
                    if prop in res:
                        continue
                    rc, o = sh(f"./check {prop} quick", timeout=2400, cwd=VC, env={"RSSV_REPO": WT, "RSSV_VERIF_DIR": VC, "RSSV_TARGET_DIR": VC + "/target"})
                    ids = sorted(set(re.findall(r"^violation: (\S+)", o, re.M)))
                    res[prop] = {"exit": rc, "checks": ids[:6]}
                    if rc == 1:
                        caught = True
                        break
            rec["status"] = "caught" if caught else "survived"
            rec["results"] = res
            done += 1
        rec["seconds"] = round(time.time() - t0)
        open(outp, "a").write(json.dumps(rec) + "\n")
        open(path, "w").write(src)
    sh(f"git -C {WT} checkout -q -- .")
    print("tried", tried, "counted", done)


if __name__ == "__main__":
    main()
