//! Direct calls of the public Tour edit methods on tours taken from a reachable schedule,
//! compared with the executable reference semantics (C12) and with recomputed figures (C09).

use crate::refstate::*;
use crate::seams::{guarded, panic_signature};
use crate::sim_b::{parse_vehicle, Ctx};
use model::base_types::NodeIdx;
use serde_json::Value;
use solution::path::Path;
use solution::segment::Segment;
use solution::tour::Tour;
use solution::Schedule;

fn figures(cx: &mut Ctx, what: &str, tour: &Tour) {
    let nodes: Vec<NodeIdx> = tour.all_nodes_iter().collect();
    let f = recompute_tour(&cx.ad, &cx.inst, &nodes);
    let ovf = if f.dead_head.is_none() { "_overflow" } else { "" };
    let dh_ok = match (tour.dead_head_distance(), f.dead_head) {
        (model::base_types::Distance::Distance(d), Some(s)) => d == s,
        (model::base_types::Distance::Infinity, None) => true,
        _ => false,
    };
    if !dh_ok {
        cx.v("C09", &format!("C09.{}_dead_head_distance{}", what, ovf), format!("{}: dead-head distance cached {} vs recomputed {:?} for {:?}", what, tour.dead_head_distance(), f.dead_head, cx.names_of(&nodes)));
    }
    if tour.costs() != f.costs {
        cx.v("C09", &format!("C09.{}_costs{}", what, ovf), format!("{}: costs cached {} vs recomputed {} for {:?}", what, tour.costs(), f.costs, cx.names_of(&nodes)));
    }
    if tour.service_distance().in_meter().ok() != Some(f.service) {
        cx.v("C09", &format!("C09.{}_service_distance", what), format!("{}: service distance cached {} vs recomputed {}", what, tour.service_distance(), f.service));
    }
    if tour.useful_duration().in_sec().ok() != Some(f.useful) {
        cx.v("C09", &format!("C09.{}_useful_duration", what), format!("{}: useful duration cached {} vs recomputed {}", what, tour.useful_duration(), f.useful));
    }
    if tour.visits_maintenance() != f.visits {
        cx.v("C09", &format!("C09.{}_visits_maintenance", what), format!("{}: visits_maintenance cached {} vs recomputed {}", what, tour.visits_maintenance(), f.visits));
    }
}

pub fn tour_call(cx: &mut Ctx, s: &Schedule, before: &Snap, op: &Value) {
    let kind = op["op"].as_str().unwrap_or("");
    let v = match op["v"].as_str().and_then(parse_vehicle) {
        Some(v) => v,
        None => return,
    };
    let tour = match s.tour_of(v) {
        Ok(t) => t.clone(),
        Err(_) => return,
    };
    let is_dummy = before.dummies.contains_key(&v);
    let t_nodes: Vec<NodeIdx> = tour.all_nodes_iter().collect();
    let nd = |cx: &Ctx, k: &str| op[k].as_str().and_then(|n| cx.node(n));
    // the path argument: explicit nodes, or the sub-tour between a and b
    let mut p_nodes: Vec<NodeIdx> = op["nodes"].as_array().map(|a| a.iter().filter_map(|x| x.as_str().and_then(|n| cx.node(n))).collect()).unwrap_or_default();
    let (a, b) = (nd(cx, "a"), nd(cx, "b"));
    if p_nodes.is_empty() {
        if let (Some(a), Some(b)) = (a, b) {
            if let (Some(x), Some(y)) = (t_nodes.iter().position(|n| *n == a), t_nodes.iter().position(|n| *n == b)) {
                if x <= y {
                    p_nodes = t_nodes[x..=y].to_vec();
                }
            }
        }
    }
    match kind {
        "tour_insert" | "tour_conflict" => {
            if p_nodes.is_empty() {
                return;
            }
            let bad_depot = p_nodes.iter().enumerate().any(|(i, n)| {
                let node = cx.ad.nw.node(*n);
                (node.is_start_depot() && i != 0) || (node.is_end_depot() && i != p_nodes.len() - 1)
            });
            if bad_depot || (is_dummy && p_nodes.iter().any(|n| !cx.ad.nw.node(*n).is_service())) {
                return;
            }
            let path = match Path::new(p_nodes.clone(), cx.ad.nw.clone()) {
                Ok(Some(p)) => p,
                _ => return,
            };
            let (exp_tour, exp_dropped) = ref_insert(&cx.ad, &cx.inst, &t_nodes, is_dummy, &p_nodes);
            if kind == "tour_insert" {
                match guarded(|| tour.insert_path(path)) {
                    Err(p) => cx.v("C12", &format!("C12.tour_insert_panic:{}", panic_signature(&p)), format!("insert_path({:?}) into {:?} panicked: {}", cx.names_of(&p_nodes), cx.names_of(&t_nodes), p)),
                    Ok((nt, removed)) => {
                        let got: Vec<NodeIdx> = nt.all_nodes_iter().collect();
                        if got != exp_tour {
                            cx.v(
                                "C12",
                                if exp_dropped.is_empty() { "C12.insert_no_conflict" } else { "C12.insert_conflict" },
                                format!("Tour::insert_path {:?} into {:?}: got {:?}, reference {:?}", cx.names_of(&p_nodes), cx.names_of(&t_nodes), cx.names_of(&got), cx.names_of(&exp_tour)),
                            );
                        } else {
                            figures(cx, "insert_path", &nt);
                        }
                        let rem: Vec<NodeIdx> = removed.map(|p| p.iter().collect()).unwrap_or_default();
                        if non_depots(&cx.ad, &rem) != non_depots(&cx.ad, &exp_dropped) {
                            cx.v("C12", "C12.insert_reported_dropped", format!("Tour::insert_path {:?} into {:?}: reported {:?}, reference {:?}", cx.names_of(&p_nodes), cx.names_of(&t_nodes), cx.names_of(&rem), cx.names_of(&exp_dropped)));
                        }
                        cx.probe(if exp_dropped.is_empty() { "tour_insert_without_conflict" } else { "tour_insert_with_conflict" });
                    }
                }
            } else {
                let seg = Segment::new(p_nodes[0], *p_nodes.last().unwrap());
                match guarded(|| tour.conflict(seg)) {
                    Err(p) => cx.v("C12", &format!("C12.conflict_panic:{}", panic_signature(&p)), format!("conflict panicked: {}", p)),
                    Ok(c) => {
                        let got: Vec<NodeIdx> = c.map(|p| p.iter().collect()).unwrap_or_default();
                        // conflict() looks at the end points only; for a dummy tour the path's depots are dropped first
                        let first_last_depot = is_dummy && (cx.ad.nw.node(p_nodes[0]).is_depot() || cx.ad.nw.node(*p_nodes.last().unwrap()).is_depot());
                        if !first_last_depot && non_depots(&cx.ad, &got) != non_depots(&cx.ad, &exp_dropped) {
                            cx.v("C12", "C12.conflict", format!("conflict of {:?} with {:?}: got {:?}, reference {:?}", cx.names_of(&p_nodes), cx.names_of(&t_nodes), cx.names_of(&got), cx.names_of(&exp_dropped)));
                        }
                    }
                }
            }
        }
        "tour_remove" => {
            let (a, b) = match (a, b) {
                (Some(a), Some(b)) => (a, b),
                _ => return,
            };
            let expect = ref_remove(&cx.ad, &cx.inst, &t_nodes, is_dummy, a, b);
            let removable = guarded(|| tour.check_removable(Segment::new(a, b)));
            match guarded(|| tour.remove(Segment::new(a, b))) {
                Err(p) => cx.v("C12", &format!("C12.tour_remove_panic:{}", panic_signature(&p)), format!("remove panicked: {}", p)),
                Ok(Err(e)) => {
                    if let RefRemove::Ok(..) = expect {
                        cx.v("C12", "C12.remove_refused_valid", format!("Tour::remove [{}..{}] from {:?} refused: {}", cx.name(a), cx.name(b), cx.names_of(&t_nodes), e));
                    }
                    if let Ok(Ok(())) = removable {
                        cx.v("C12", "C12.check_removable_disagrees", "check_removable accepts what remove refuses".into());
                    }
                }
                Ok(Ok((rest, path))) => {
                    if let Ok(Err(_)) = removable {
                        cx.v("C12", "C12.check_removable_disagrees", "check_removable refuses what remove accepts".into());
                    }
                    match expect {
                        RefRemove::Refuse(why) => cx.v("C12", &format!("C12.remove_accepted_invalid:{}", why.replace(' ', "_")), format!("Tour::remove [{}..{}] from {:?} must be refused ({})", cx.name(a), cx.name(b), cx.names_of(&t_nodes), why)),
                        RefRemove::Ok(erest, eremoved) => {
                            let got_rest: Option<Vec<NodeIdx>> = rest.as_ref().map(|t| t.all_nodes_iter().collect());
                            let got_removed: Vec<NodeIdx> = path.iter().collect();
                            if got_rest != erest || got_removed != eremoved {
                                cx.v("C12", "C12.remove_result", format!("Tour::remove [{}..{}] from {:?}: got {:?} / {:?}, reference {:?} / {:?}", cx.name(a), cx.name(b), cx.names_of(&t_nodes), got_rest.map(|x| cx.names_of(&x)), cx.names_of(&got_removed), erest.map(|x| cx.names_of(&x)), cx.names_of(&eremoved)));
                            } else if let Some(t) = rest {
                                figures(cx, "remove", &t);
                            }
                        }
                    }
                }
            }
        }
        "tour_sub_path" => {
            let (a, b) = match (a, b) {
                (Some(a), Some(b)) => (a, b),
                _ => return,
            };
            if cx.ad.nw.node(a).is_depot() || cx.ad.nw.node(b).is_depot() {
                return;
            }
            let (pa, pb) = match (t_nodes.iter().position(|n| *n == a), t_nodes.iter().position(|n| *n == b)) {
                (Some(x), Some(y)) => (x, y),
                _ => return,
            };
            match guarded(|| tour.sub_path(Segment::new(a, b))) {
                Err(p) => cx.v("C12", &format!("C12.sub_path_panic:{}", panic_signature(&p)), format!("sub_path panicked: {}", p)),
                Ok(Err(e)) => {
                    if pa <= pb {
                        cx.v("C12", "C12.sub_path_refused", format!("sub_path [{}..{}] of {:?} refused: {}", cx.name(a), cx.name(b), cx.names_of(&t_nodes), e));
                    }
                }
                Ok(Ok(p)) => {
                    let got: Vec<NodeIdx> = p.iter().collect();
                    if pa > pb {
                        cx.v("C12", "C12.sub_path_accepted_reversed", "sub_path accepted a reversed segment".into());
                    } else if got != t_nodes[pa..=pb] {
                        cx.v("C12", "C12.sub_path_result", format!("sub_path [{}..{}] of {:?}: got {:?}", cx.name(a), cx.name(b), cx.names_of(&t_nodes), cx.names_of(&got)));
                    }
                    if pa < pb {
                        if let (Some(&x), Some(&y)) = (cx.ad.node_to_act.get(&t_nodes[pa]), cx.ad.node_to_act.get(&t_nodes[pa + 1])) {
                            if cx.inst.acts[x].end == cx.inst.acts[y].start {
                                cx.probe("sub_path_over_tie");
                            }
                        }
                    }
                }
            }
        }
        _ => {}
    }
}
