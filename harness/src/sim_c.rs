//! SIM-C — service simulation (C18). Real code: the axum Router built by the server's `main`
//! (taken through hook H3), its handlers, `server::solve_instance`, hyper's HTTP/1 connection
//! state machine. Stubbed: TCP (in-memory `SimPipe`), the tokio runtime and its per-connection
//! task isolation (a seeded, hand-rolled executor that polls one connection at a time and
//! catches panics per connection). No timers exist anywhere in this path.

use crate::gen::{gen_instance, GenOpts};
use crate::oracle_out::{check_c01, check_c03, parse_output, Violation};
use crate::refmodel::RefInstance;
use crate::rng::{digest_str, Rng};
use crate::seams::{panic_signature, run_isolated, take_last_panic};
use serde_json::{json, Value};
use std::collections::{BTreeMap, BTreeSet, VecDeque};
use std::future::Future;
use std::panic::{catch_unwind, AssertUnwindSafe};
use std::pin::Pin;
use std::sync::atomic::{AtomicBool, Ordering};
use std::sync::{Arc, Mutex};
use std::task::{Context, Poll, Wake, Waker};

#[allow(dead_code)]
mod server_main {
    include!("server_main_include.rs");
}

// ---------------------------------------------------------------------------------------------
// transport
// ---------------------------------------------------------------------------------------------

#[derive(Default)]
struct PipeInner {
    to_server: VecDeque<u8>,
    client_write_closed: bool,
    client_gone: bool, // client dropped the connection entirely (reads and writes fail)
    to_client: Vec<u8>,
    server_closed: bool,
    server_waker: Option<Waker>,
}

#[derive(Clone)]
struct SimPipe(Arc<Mutex<PipeInner>>);

impl hyper::rt::Read for SimPipe {
    fn poll_read(self: Pin<&mut Self>, cx: &mut Context<'_>, mut buf: hyper::rt::ReadBufCursor<'_>) -> Poll<std::io::Result<()>> {
        let mut p = self.0.lock().unwrap();
        if p.client_gone {
            return Poll::Ready(Err(std::io::Error::new(std::io::ErrorKind::ConnectionReset, "client gone")));
        }
        if !p.to_server.is_empty() {
            let room = unsafe { buf.as_mut().len() };
            let n = room.min(p.to_server.len());
            let chunk: Vec<u8> = p.to_server.drain(..n).collect();
            buf.put_slice(&chunk);
            return Poll::Ready(Ok(()));
        }
        if p.client_write_closed {
            return Poll::Ready(Ok(())); // EOF
        }
        p.server_waker = Some(cx.waker().clone());
        Poll::Pending
    }
}

impl hyper::rt::Write for SimPipe {
    fn poll_write(self: Pin<&mut Self>, _cx: &mut Context<'_>, data: &[u8]) -> Poll<std::io::Result<usize>> {
        let mut p = self.0.lock().unwrap();
        if p.client_gone {
            return Poll::Ready(Err(std::io::Error::new(std::io::ErrorKind::BrokenPipe, "client gone")));
        }
        p.to_client.extend_from_slice(data);
        Poll::Ready(Ok(data.len()))
    }
    fn poll_flush(self: Pin<&mut Self>, _cx: &mut Context<'_>) -> Poll<std::io::Result<()>> {
        Poll::Ready(Ok(()))
    }
    fn poll_shutdown(self: Pin<&mut Self>, _cx: &mut Context<'_>) -> Poll<std::io::Result<()>> {
        self.0.lock().unwrap().server_closed = true;
        Poll::Ready(Ok(()))
    }
}

struct Flag(AtomicBool);
impl Wake for Flag {
    fn wake(self: Arc<Self>) {
        self.0.store(true, Ordering::SeqCst);
    }
}

type ConnFuture = Pin<Box<dyn Future<Output = Result<(), hyper::Error>>>>;

struct ServerConn {
    fut: Option<ConnFuture>,
    pipe: SimPipe,
    flag: Arc<Flag>,
    panicked: Option<String>,
    finished: bool,
    /// stage-granular overlap mode: the connection future lives on its own parked OS thread
    remote: Option<RemoteConn>,
    /// Some(stage tag) while the connection is suspended inside a solve (at a hook-H2 yield point)
    suspended: Option<&'static str>,
}

enum Cmd {
    Poll,
    Resume,
    Quit,
}

enum Evt {
    Yield(&'static str),
    PollDone { finished: bool, panicked: Option<String> },
}

struct RemoteConn {
    cmd: std::sync::mpsc::Sender<Cmd>,
    evt: std::sync::mpsc::Receiver<Evt>,
    handle: Option<std::thread::JoinHandle<()>>,
}

/// The connection future is created and polled on its own thread, inside its own 1-worker
/// rayon pool. Exactly one thread of the simulation runs at any time: the scheduler hands the
/// baton over with `Cmd` and waits for the next `Evt` of that thread. Hook H2's yield callback
/// makes every pipeline stage boundary inside `solve_instance` a preemption point.
fn spawn_remote(router: axum::Router, pipe: SimPipe, flag: Arc<Flag>, rt: tokio::runtime::Handle) -> RemoteConn {
    let (cmd_tx, cmd_rx) = std::sync::mpsc::channel::<Cmd>();
    let (evt_tx, evt_rx) = std::sync::mpsc::channel::<Evt>();
    let handle = crate::seams::spawn_retry("sim-conn", 128 << 20, move || {
            let pool = rayon::ThreadPoolBuilder::new().num_threads(1).stack_size(64 << 20).build().expect("pool");
            let cmd_rx = Arc::new(Mutex::new(cmd_rx));
            let svc = hyper_util::service::TowerToHyperService::new(router);
            let conn = hyper::server::conn::http1::Builder::new().serve_connection(pipe, svc);
            let mut fut: Option<Pin<Box<dyn Future<Output = Result<(), hyper::Error>> + Send>>> = Some(Box::pin(conn));
            loop {
                let c = cmd_rx.lock().unwrap().recv();
                match c {
                    Ok(Cmd::Poll) => {
                        if fut.is_none() {
                            let _ = evt_tx.send(Evt::PollDone { finished: true, panicked: None });
                            continue;
                        }
                        flag.0.store(false, Ordering::SeqCst);
                        let waker = Waker::from(flag.clone());
                        let f = fut.as_mut().unwrap();
                        let (etx, crx) = (evt_tx.clone(), cmd_rx.clone());
                        let r = pool.install(|| {
                            let _g = rt.enter();
                            let (etx2, crx2) = (etx.clone(), crx.clone());
                            server::verif_hooks::set_yield(Some(Box::new(move |tag: &'static str| {
                                // give the baton back and wait until the scheduler resumes this solve
                                let _ = etx2.send(Evt::Yield(tag));
                                loop {
                                    match crx2.lock().unwrap().recv() {
                                        Ok(Cmd::Resume) | Err(_) => break,
                                        Ok(_) => {}
                                    }
                                }
                            })));
                            let mut cx = Context::from_waker(&waker);
                            crate::seams::clear_last_panic();
                            let r = catch_unwind(AssertUnwindSafe(|| f.as_mut().poll(&mut cx)));
                            server::verif_hooks::set_yield(None);
                            r
                        });
                        match r {
                            Ok(Poll::Pending) => {
                                let _ = evt_tx.send(Evt::PollDone { finished: false, panicked: None });
                            }
                            Ok(Poll::Ready(_)) => {
                                fut = None;
                                let _ = evt_tx.send(Evt::PollDone { finished: true, panicked: None });
                            }
                            Err(_) => {
                                fut = None;
                                let _ = evt_tx.send(Evt::PollDone { finished: true, panicked: Some(take_last_panic().unwrap_or_else(|| "panic".into())) });
                            }
                        }
                    }
                    Ok(Cmd::Resume) => {}
                    Ok(Cmd::Quit) | Err(_) => break,
                }
            }
        });
    RemoteConn { cmd: cmd_tx, evt: evt_rx, handle: Some(handle) }
}

thread_local! {
    static ROUTER: std::cell::RefCell<Option<axum::Router>> = const { std::cell::RefCell::new(None) };
}

/// the real Router, built by the server's own `main` and handed over through hook H3
fn real_router() -> Result<axum::Router, String> {
    let cached = ROUTER.with(|r| r.borrow().clone());
    if let Some(r) = cached {
        return Ok(r);
    }
    server::verif_hooks::arm_router();
    server_main::main();
    match server::verif_hooks::take_router() {
        Some(r) => {
            ROUTER.with(|c| *c.borrow_mut() = Some(r.clone()));
            Ok(r)
        }
        None => Err("server main did not offer its router (hook H3 missing?)".into()),
    }
}

fn new_conn(router: &axum::Router, overlap: bool, rt: &tokio::runtime::Handle) -> ServerConn {
    let pipe = SimPipe(Arc::new(Mutex::new(PipeInner::default())));
    let flag = Arc::new(Flag(AtomicBool::new(true)));
    if overlap {
        let remote = spawn_remote(router.clone(), pipe.clone(), flag.clone(), rt.clone());
        return ServerConn { fut: None, pipe, flag, panicked: None, finished: false, remote: Some(remote), suspended: None };
    }
    let svc = hyper_util::service::TowerToHyperService::new(router.clone());
    let conn = hyper::server::conn::http1::Builder::new().serve_connection(pipe.clone(), svc);
    ServerConn {
        fut: Some(Box::pin(conn)),
        pipe,
        flag,
        panicked: None,
        finished: false,
        remote: None,
        suspended: None,
    }
}

// ---------------------------------------------------------------------------------------------
// requests and scripts
// ---------------------------------------------------------------------------------------------

fn header_name(k: &str, style: u64) -> String {
    match style {
        1 => k.split('-').map(|w| { let mut c = w.chars(); c.next().map(|f| f.to_uppercase().collect::<String>() + c.as_str()).unwrap_or_default() }).collect::<Vec<_>>().join("-"),
        2 => k.to_uppercase(),
        _ => k.to_string(),
    }
}

fn http_request_styled(method: &str, path: &str, version: &str, headers: &[(&str, String)], body: &[u8], chunked: Option<usize>, style: u64, expect_continue: bool) -> Vec<u8> {
    let mut out = format!("{} {} HTTP/{}\r\n{}: sim\r\n", method, path, version, header_name("host", style)).into_bytes();
    for (k, v) in headers {
        out.extend_from_slice(format!("{}: {}\r\n", header_name(k, style), v).as_bytes());
    }
    if expect_continue && !body.is_empty() {
        out.extend_from_slice(format!("{}: 100-continue\r\n", header_name("expect", style)).as_bytes());
    }
    finish_request(out, method, body, chunked, style)
}

fn http_request(method: &str, path: &str, version: &str, headers: &[(&str, String)], body: &[u8], chunked: Option<usize>) -> Vec<u8> {
    let mut out = format!("{} {} HTTP/{}\r\nhost: sim\r\n", method, path, version).into_bytes();
    for (k, v) in headers {
        out.extend_from_slice(format!("{}: {}\r\n", k, v).as_bytes());
    }
    finish_request(out, method, body, chunked, 0)
}

fn finish_request(mut out: Vec<u8>, method: &str, body: &[u8], chunked: Option<usize>, style: u64) -> Vec<u8> {
    match chunked {
        Some(sz) if !body.is_empty() => {
            out.extend_from_slice(format!("{}: chunked\r\n\r\n", header_name("transfer-encoding", style)).as_bytes());
            for c in body.chunks(sz.max(1)) {
                out.extend_from_slice(format!("{:x}\r\n", c.len()).as_bytes());
                out.extend_from_slice(c);
                out.extend_from_slice(b"\r\n");
            }
            out.extend_from_slice(b"0\r\n\r\n");
        }
        _ => {
            if !body.is_empty() || method == "POST" {
                out.extend_from_slice(format!("{}: {}\r\n", header_name("content-length", style), body.len()).as_bytes());
            }
            out.extend_from_slice(b"\r\n");
            out.extend_from_slice(body);
        }
    }
    out
}

pub fn gen_case(seed: u64, focus: &str) -> Value {
    let mut rng = Rng::new(seed);
    let n_clients = rng.range(2, 6) as usize;
    let mut clients = vec![];
    let mut earlier: Vec<Value> = vec![];
    for c in 0..n_clients {
        let n_req = rng.range(1, 4) as usize;
        let mut reqs = vec![];
        for k in 0..n_req {
            let kind_w: [(&str, u32); 16] = [
                ("health", 14),
                ("solve", 40),
                ("solve_chunked", 6),
                ("solve_http10", 3),
                ("solve_large", 3),
                ("malformed_json", 6),
                ("wrong_shape", 6),
                ("unresolved_reference", 6),
                ("zero_capacity", 3),
                ("wrong_content_type", 3),
                ("wrong_method", 3),
                ("unknown_path", 3),
                ("garbage", 2),
                ("empty_body", 2),
                ("slot_end_before_start", 4),
                ("huge_costs", 3),
            ];
            let kind = kind_w[rng.weighted(&kind_w.iter().map(|x| x.1).collect::<Vec<_>>())].0;
            let mut g = rng.fork((c * 100 + k) as u64);
            let opts = GenOpts {
                need_slots: g.chance(1, 2),
                max_segments: 5,
                id_prefix: format!("q{}x{}_", c, k),
                sentinels: true,
                ..Default::default()
            };
            let (mut inst, _) = gen_instance(&mut g, &opts);
            // Some requests share their infrastructure (locations, dead-head matrix, types, routes,
            // all ids) with an earlier request of the run and differ only in the timetable: the last
            // departure is a day later, which also changes the planning horizon. Attribution then
            // rests on the content (times) instead of the ids.
            if !earlier.is_empty() && rng.chance(1, 4) {
                let base: &Value = &earlier[rng.usize(earlier.len())];
                let mut v = base.clone();
                if let Some(deps) = v["departures"].as_array_mut() {
                    if let Some(last) = deps.last_mut() {
                        if let Some(segs) = last["segments"].as_array_mut() {
                            for sgm in segs.iter_mut() {
                                if let Some(t) = sgm["departure"].as_str().and_then(|t| crate::refmodel::parse_time(t).ok()) {
                                    sgm["departure"] = json!(crate::refmodel::fmt_time(t + 86400));
                                }
                            }
                        }
                    }
                }
                if RefInstance::parse(&v).is_ok() {
                    inst = v;
                }
            }
            earlier.push(inst.clone());
            // fault attached to this request (at most one per request, ~25 %)
            let fault_w: [(&str, u32); 7] = [
                ("none", 75),
                ("close_mid_headers", 4),
                ("close_mid_body", 6),
                ("close_before_response", 5),
                ("close_mid_response", 4),
                ("duplicate_on_second_connection", 4),
                ("half_close_after_request", 2),
            ];
            let fault = fault_w[rng.weighted(&fault_w.iter().map(|x| x.1).collect::<Vec<_>>())].0;
            // size of a "solve_large" body (insignificant whitespace): the server disables the body
            // limit, so sizes on both sides of the framework's 2 MB default must be served
            let pad = *g.pick(&[200_000u64, 200_000, 1_200_000, 2_500_000, 5_000_000]);
            reqs.push(json!({"kind": kind, "instance": inst, "fault": fault, "pipelined": rng.chance(1, 6), "chunk": *rng.pick(&[1u64, 7, 64, 1024, 1 << 20]),
                             "header_style": *rng.pick(&[0u64, 0, 0, 1, 2]), "expect_continue": rng.chance(1, 8), "pad": pad}));
        }
        clients.push(json!({"requests": reqs}));
    }
    json!({
        "sim": "c", "seed": seed, "focus": focus, "clients": clients,
        "hash_key": rng.next_u64(), "workers": *rng.pick(&[1u64, 1, 2, 4]), "sched_seed": rng.next_u64(),
        "overlap": rng.chance(1, 3),
    })
}

pub fn case_candidates(case: &Value) -> Vec<Value> {
    let mut out = vec![];
    let clients = case["clients"].as_array().cloned().unwrap_or_default();
    if clients.len() > 1 {
        for i in (0..clients.len()).rev() {
            let mut c = case.clone();
            c["clients"].as_array_mut().unwrap().remove(i);
            out.push(c);
        }
    }
    for (i, cl) in clients.iter().enumerate() {
        let n = cl["requests"].as_array().map(|a| a.len()).unwrap_or(0);
        if n > 1 {
            for k in (0..n).rev() {
                let mut c = case.clone();
                c["clients"][i]["requests"].as_array_mut().unwrap().remove(k);
                out.push(c);
            }
        }
        for k in 0..n {
            let r = &cl["requests"][k];
            if r["fault"] != json!("none") {
                let mut c = case.clone();
                c["clients"][i]["requests"][k]["fault"] = json!("none");
                out.push(c);
            }
            if r["chunk"] != json!(1u64 << 20) {
                let mut c = case.clone();
                c["clients"][i]["requests"][k]["chunk"] = json!(1u64 << 20);
                out.push(c);
            }
            if r["pipelined"] == json!(true) {
                let mut c = case.clone();
                c["clients"][i]["requests"][k]["pipelined"] = json!(false);
                out.push(c);
            }
            for inst in crate::shrink::instance_candidates(&r["instance"]).into_iter().take(12) {
                if RefInstance::parse(&inst).is_ok() {
                    let mut c = case.clone();
                    c["clients"][i]["requests"][k]["instance"] = inst;
                    out.push(c);
                }
            }
        }
    }
    if case["workers"] != json!(1) {
        let mut c = case.clone();
        c["workers"] = json!(1);
        out.push(c);
    }
    out
}

#[derive(Clone, Debug, PartialEq)]
enum Class {
    Health,
    ValidSolve,
    Invalid,   // must never be answered with a 200 schedule
    OtherHttp, // wrong method / unknown path: any well-formed HTTP answer, not a schedule
    Either,    // well-formed but beyond what the solver accepts (guards against overflow): may fail; if it is answered 200 the answer must be right
}

struct Req {
    id: String,
    kind: String,
    class: Class,
    bytes: Vec<u8>,
    header_len: usize,
    instance: Value,
    fault: String,
    pipelined: bool,
    chunk: usize,
}

fn build_request(id: String, r: &Value) -> Req {
    let kind = r["kind"].as_str().unwrap_or("health").to_string();
    let inst = r["instance"].clone();
    let body_ok = serde_json::to_vec(&inst).unwrap();
    let ct = |v: &str| vec![("content-type", v.to_string())];
    let (class, bytes) = match kind.as_str() {
        "health" => (Class::Health, http_request("GET", "/health", "1.1", &[], b"", None)),
        "solve" => (
            Class::ValidSolve,
            http_request_styled("POST", "/solve", "1.1", &ct("application/json"), &body_ok, None, r["header_style"].as_u64().unwrap_or(0), r["expect_continue"].as_bool().unwrap_or(false)),
        ),
        "solve_chunked" => (Class::ValidSolve, http_request("POST", "/solve", "1.1", &ct("application/json"), &body_ok, Some(97))),
        "solve_http10" => (Class::ValidSolve, http_request("POST", "/solve", "1.0", &ct("application/json"), &body_ok, None)),
        "solve_large" => {
            // insignificant whitespace up to the size the script chose: the body limit is disabled
            let mut b = body_ok.clone();
            let pad = (r["pad"].as_u64().unwrap_or(200_000) as usize).saturating_sub(b.len());
            b.splice(1..1, std::iter::repeat(b' ').take(pad));
            (Class::ValidSolve, http_request("POST", "/solve", "1.1", &ct("application/json"), &b, None))
        }
        "malformed_json" => {
            let mut b = body_ok.clone();
            b.truncate(b.len() * 2 / 3);
            (Class::Invalid, http_request("POST", "/solve", "1.1", &ct("application/json"), &b, None))
        }
        "wrong_shape" => {
            let mut v = inst.clone();
            v.as_object_mut().unwrap().remove("parameters");
            (Class::Invalid, http_request("POST", "/solve", "1.1", &ct("application/json"), &serde_json::to_vec(&v).unwrap(), None))
        }
        "unresolved_reference" => {
            let mut v = inst.clone();
            // every route, so that the broken reference is certainly used by a departure
            for r in v["routes"].as_array_mut().unwrap() {
                r["vehicleType"] = json!("no_such_type");
            }
            (Class::Invalid, http_request("POST", "/solve", "1.1", &ct("application/json"), &serde_json::to_vec(&v).unwrap(), None))
        }
        "zero_capacity" => {
            let mut v = inst.clone();
            for t in v["vehicleTypes"].as_array_mut().unwrap() {
                t["capacity"] = json!(0);
            }
            (Class::Invalid, http_request("POST", "/solve", "1.1", &ct("application/json"), &serde_json::to_vec(&v).unwrap(), None))
        }
        "slot_end_before_start" => {
            // semantically invalid in a way the loader does not notice: fails only in a later stage
            let mut v = inst.clone();
            let t0 = crate::refmodel::fmt_time(1_709_510_400 + 8 * 3600);
            let t1 = crate::refmodel::fmt_time(1_709_510_400 + 7 * 3600);
            let loc = v["locations"][0]["id"].clone();
            let slot = json!({"id": "bad_slot", "location": loc, "start": t0, "end": t1, "trackCount": 1});
            match v["maintenanceSlots"].as_array_mut() {
                Some(a) => a.push(slot),
                None => {
                    v["maintenanceSlots"] = json!([slot]);
                }
            }
            (Class::Invalid, http_request("POST", "/solve", "1.1", &ct("application/json"), &serde_json::to_vec(&v).unwrap(), None))
        }
        "huge_costs" => {
            let mut v = inst.clone();
            v["parameters"]["costs"]["serviceTrip"] = json!(1_000_000_000_000_000u64);
            (Class::Either, http_request("POST", "/solve", "1.1", &ct("application/json"), &serde_json::to_vec(&v).unwrap(), None))
        }
        "wrong_content_type" => (Class::Invalid, http_request("POST", "/solve", "1.1", &ct("text/plain"), &body_ok, None)),
        "empty_body" => (Class::Invalid, http_request("POST", "/solve", "1.1", &ct("application/json"), b"", None)),
        "wrong_method" => (Class::OtherHttp, http_request("GET", "/solve", "1.1", &[], b"", None)),
        "unknown_path" => (Class::OtherHttp, http_request("GET", "/nothing/here", "1.1", &[], b"", None)),
        _ => (Class::Invalid, b"\x16\x03\x01\x02\x00\x01\x00\x01\xfc\x03\x03 this is not http\r\n\r\n".to_vec()),
    };
    let header_len = bytes.windows(4).position(|w| w == b"\r\n\r\n").map(|p| p + 4).unwrap_or(bytes.len());
    let is_large = kind == "solve_large";
    Req {
        id,
        kind,
        class,
        bytes,
        header_len,
        instance: inst,
        fault: r["fault"].as_str().unwrap_or("none").to_string(),
        pipelined: r["pipelined"].as_bool().unwrap_or(false),
        chunk: {
            let c = r["chunk"].as_u64().unwrap_or(1 << 20) as usize;
            // byte-wise delivery of a 200 kB body would only burn steps
            if is_large {
                c.max(if r["pad"].as_u64().unwrap_or(0) > 500_000 { 1 << 16 } else { 8192 })
            } else {
                c
            }
        },
    }
}

#[derive(Debug)]
struct Response {
    status: u16,
    body: Vec<u8>,
}

/// parses as many complete responses as the buffer holds; returns them and the bytes consumed
fn parse_responses(buf: &[u8], eof: bool) -> (Vec<Response>, usize) {
    let mut out = vec![];
    let mut pos = 0;
    loop {
        let rest = &buf[pos..];
        let hend = match rest.windows(4).position(|w| w == b"\r\n\r\n") {
            Some(p) => p + 4,
            None => break,
        };
        let head = String::from_utf8_lossy(&rest[..hend]).to_lowercase();
        let status: u16 = head.split_whitespace().nth(1).and_then(|s| s.parse().ok()).unwrap_or(0);
        if (100..200).contains(&status) {
            pos += hend;
            continue;
        }
        let clen = head.lines().find_map(|l| l.strip_prefix("content-length:").map(|v| v.trim().parse::<usize>().unwrap_or(0)));
        let chunked = head.lines().any(|l| l.starts_with("transfer-encoding:") && l.contains("chunked"));
        if chunked {
            let mut p = hend;
            let mut body = vec![];
            let mut complete = false;
            loop {
                let line_end = match rest[p..].windows(2).position(|w| w == b"\r\n") {
                    Some(x) => p + x,
                    None => break,
                };
                let sz = usize::from_str_radix(String::from_utf8_lossy(&rest[p..line_end]).trim(), 16).unwrap_or(0);
                let data_start = line_end + 2;
                if sz == 0 {
                    if rest.len() >= data_start + 2 {
                        p = data_start + 2;
                        complete = true;
                    }
                    break;
                }
                if rest.len() < data_start + sz + 2 {
                    break;
                }
                body.extend_from_slice(&rest[data_start..data_start + sz]);
                p = data_start + sz + 2;
            }
            if !complete {
                break;
            }
            out.push(Response { status, body });
            pos += p;
        } else if let Some(n) = clen {
            if rest.len() < hend + n {
                break;
            }
            out.push(Response { status, body: rest[hend..hend + n].to_vec() });
            pos += hend + n;
        } else if eof {
            out.push(Response { status, body: rest[hend..].to_vec() });
            pos = buf.len();
        } else {
            break;
        }
    }
    (out, pos)
}

struct ClientConn {
    conn: usize,
    sent_reqs: Vec<usize>,        // indices into reqs, in the order put on this connection
    out: VecDeque<(usize, u8)>,   // (request index, byte) still to deliver
    answered: usize,              // responses already matched on this connection
    aborted: bool,
    consumed: usize,
    half_closed: bool,
}

struct Client {
    reqs: Vec<Req>,
    next: usize, // next request to start
    conns: Vec<ClientConn>,
    excused: BTreeSet<usize>,
    answered: BTreeMap<usize, (u16, Vec<u8>)>,
}

// ---------------------------------------------------------------------------------------------

pub fn exec_case(case: &Value, _want: &BTreeSet<String>) -> Value {
    let hash_key = case["hash_key"].as_u64().unwrap_or(0);
    let workers = case["workers"].as_u64().unwrap_or(1) as usize;
    let c2 = case.clone();
    match run_isolated(hash_key, workers, move || run_inner(&c2)) {
        Ok(v) => v,
        Err(p) => json!({"outcome": "panic", "panic": p, "violations": [], "digest": digest_str(&p)}),
    }
}

fn run_inner(case: &Value) -> Value {
    let router = match real_router() {
        Ok(r) => r,
        Err(e) => return json!({"outcome": "invalid_case", "panic": e, "violations": []}),
    };
    let mut rng = Rng::new(case["sched_seed"].as_u64().unwrap_or(0));
    let overlap = case["overlap"].as_bool().unwrap_or(false);
    // A tokio context is entered so that a handler which uses tokio::spawn / spawn_blocking /
    // timers still works in the simulator (the shipped handlers use none of them; nothing is
    // ever scheduled on this runtime on the unchanged tree, so replay stays exact).
    let rt = tokio::runtime::Builder::new_multi_thread().worker_threads(1).enable_all().build().expect("tokio runtime");
    let _rt_guard = rt.enter();
    let rt_handle = rt.handle().clone();
    let mut viols: Vec<Violation> = vec![];
    let mut faults: BTreeMap<String, u64> = BTreeMap::new();
    let mut probes: BTreeMap<String, u64> = BTreeMap::new();
    let mut log = String::new();
    let mut v = |viols: &mut Vec<Violation>, check: &str, msg: String| {
        if !viols.iter().any(|x| x.check == check) {
            viols.push(crate::oracle_out::viol("C18", check, msg));
        }
    };
    let mut clients: Vec<Client> = case["clients"]
        .as_array()
        .cloned()
        .unwrap_or_default()
        .iter()
        .enumerate()
        .map(|(ci, c)| Client {
            reqs: c["requests"].as_array().cloned().unwrap_or_default().iter().enumerate().map(|(k, r)| build_request(format!("c{}r{}", ci, k), r)).collect(),
            next: 0,
            conns: vec![],
            excused: BTreeSet::new(),
            answered: BTreeMap::new(),
        })
        .collect();
    let mut conns: Vec<ServerConn> = vec![];
    let mut steps: u64 = 0;
    let mut max_open = 0usize;
    let mut fault_happened_at: Option<u64> = None;
    let mut valid_after_fault = false;
    let step_cap: u64 = 60_000;

    // ---- helpers over the shared state -------------------------------------------------------
    fn poll_conn(c: &mut ServerConn) {
        if c.finished {
            return;
        }
        if c.remote.is_some() {
            // overlap mode: hand the baton to the connection thread (start a poll, or resume a solve
            // that is suspended at a stage boundary) and wait until it yields or the poll ends
            let resume = c.suspended.is_some();
            let r = c.remote.as_ref().unwrap();
            let _ = r.cmd.send(if resume { Cmd::Resume } else { Cmd::Poll });
            match r.evt.recv() {
                Ok(Evt::Yield(tag)) => c.suspended = Some(tag),
                Ok(Evt::PollDone { finished, panicked }) => {
                    c.suspended = None;
                    if finished {
                        c.finished = true;
                        c.pipe.0.lock().unwrap().server_closed = true;
                    }
                    if panicked.is_some() {
                        c.panicked = panicked;
                    }
                }
                Err(_) => {
                    c.suspended = None;
                    c.finished = true;
                    c.pipe.0.lock().unwrap().server_closed = true;
                }
            }
            return;
        }
        if c.fut.is_none() {
            return;
        }
        c.flag.0.store(false, Ordering::SeqCst);
        let waker = Waker::from(c.flag.clone());
        let mut cx = Context::from_waker(&waker);
        crate::seams::clear_last_panic();
        let fut = c.fut.as_mut().unwrap();
        match catch_unwind(AssertUnwindSafe(|| fut.as_mut().poll(&mut cx))) {
            Ok(Poll::Pending) => {}
            Ok(Poll::Ready(_)) => {
                c.finished = true;
                c.fut = None;
                c.pipe.0.lock().unwrap().server_closed = true;
            }
            Err(_) => {
                // what tokio does for a panicking connection task: the task dies, the socket closes
                c.panicked = Some(take_last_panic().unwrap_or_else(|| "panic".into()));
                c.finished = true;
                c.fut = None;
                c.pipe.0.lock().unwrap().server_closed = true;
            }
        }
    }
    fn wake_server(c: &ServerConn) {
        let w = c.pipe.0.lock().unwrap().server_waker.take();
        if let Some(w) = w {
            w.wake();
        }
    }

    // phase 0 = scripted phase with faults, phase 1 = fault-free closing round
    for phase in 0..2 {
        if phase == 1 {
            // closing round: on fresh connections one health check and one fresh valid solve per client
            for (ci, cl) in clients.iter_mut().enumerate() {
                let mut g = Rng::new(case["sched_seed"].as_u64().unwrap_or(0) ^ (ci as u64 + 77));
                let opts = GenOpts { max_segments: 4, id_prefix: format!("z{}_", ci), ..Default::default() };
                let (inst, _) = gen_instance(&mut g, &opts);
                let base = cl.reqs.len();
                cl.reqs.push(build_request(format!("c{}closing_health", ci), &json!({"kind": "health", "instance": inst, "fault": "none"})));
                cl.reqs.push(build_request(format!("c{}closing_solve", ci), &json!({"kind": "solve", "instance": inst, "fault": "none"})));
                cl.next = base;
                // force new connections
                for cc in cl.conns.iter_mut() {
                    cc.aborted = true;
                }
            }
        }
        let phase_start = steps;
        loop {
            // ---- enabled events -----------------------------------------------------------------
            // (kind, client, conn-of-client)
            let mut ev: Vec<(u8, usize, usize)> = vec![];
            for (ci, cl) in clients.iter().enumerate() {
                // start next request: on the current connection if pipelining or idle, else wait
                if cl.next < cl.reqs.len() {
                    let cur = cl.conns.iter().rposition(|c| !c.aborted && !c.half_closed && !conns[c.conn].pipe.0.lock().unwrap().server_closed);
                    match cur {
                        None => ev.push((0, ci, 0)), // open a connection and queue the request
                        Some(k) => {
                            let cc = &cl.conns[k];
                            let idle = cc.out.is_empty() && cc.answered == cc.sent_reqs.len();
                            if idle || (cl.reqs[cl.next].pipelined && cc.out.is_empty()) {
                                ev.push((1, ci, k));
                            }
                        }
                    }
                }
                for (k, cc) in cl.conns.iter().enumerate() {
                    if cc.aborted {
                        continue;
                    }
                    if !cc.out.is_empty() {
                        ev.push((2, ci, k)); // deliver a chunk
                    }
                    let p = conns[cc.conn].pipe.0.lock().unwrap();
                    if p.to_client.len() > cc.consumed || (p.server_closed && cc.answered < cc.sent_reqs.len()) {
                        ev.push((3, ci, k)); // client reads
                    }
                }
            }
            for (j, c) in conns.iter().enumerate() {
                if !c.finished && (c.flag.0.load(Ordering::SeqCst) || c.suspended.is_some()) {
                    ev.push((4, j, 0));
                }
            }
            let all_done = clients.iter().all(|cl| {
                cl.next >= cl.reqs.len()
                    && cl.conns.iter().all(|c| c.aborted || (c.out.is_empty() && (c.answered >= c.sent_reqs.len() || conns[c.conn].pipe.0.lock().unwrap().server_closed && conns[c.conn].pipe.0.lock().unwrap().to_client.len() <= c.consumed)))
            });
            if all_done && ev.iter().all(|e| e.0 == 4) {
                // let the server finish what it has been woken for, then end the phase
                if ev.is_empty() {
                    break;
                }
            }
            if ev.is_empty() {
                // Work that was handed to another thread (only possible if a handler spawns tasks,
                // which the shipped handlers do not) may still wake a connection: give it real time.
                let t_wait = std::time::Instant::now();
                let mut woke = false;
                while t_wait.elapsed() < std::time::Duration::from_secs(3) {
                    if conns.iter().any(|c| !c.finished && c.flag.0.load(Ordering::SeqCst)) {
                        woke = true;
                        break;
                    }
                    std::thread::sleep(std::time::Duration::from_millis(1));
                }
                if woke {
                    *probes.entry("waited_for_cross_thread_wakeup".into()).or_insert(0) += 1;
                    continue;
                }
                // nothing can happen although requests are outstanding
                let waiting: Vec<String> = clients.iter().flat_map(|cl| cl.conns.iter().filter(|c| !c.aborted && c.answered < c.sent_reqs.len()).flat_map(|c| c.sent_reqs[c.answered..].iter().map(|&r| cl.reqs[r].id.clone())).collect::<Vec<_>>()).collect();
                v(&mut viols, "C18.stuck_no_progress_possible", format!("no event is enabled but requests {:?} are unanswered on open connections", waiting));
                break;
            }
            steps += 1;
            if steps > step_cap {
                v(&mut viols, "C18.step_cap", "run did not finish within the step cap".into());
                break;
            }
            if phase == 1 && steps - phase_start > 2000 * clients.len() as u64 * 2 {
                v(&mut viols, "C18.liveness_after_faults", format!("closing round not finished {} steps after the last fault", steps - phase_start));
                break;
            }
            // server polls are given weight so that requests make progress
            let weights: Vec<u32> = ev.iter().map(|e| match e.0 { 4 => 6, 2 => 4, 3 => 3, _ => 2 }).collect();
            let e = ev[rng.weighted(&weights)];
            log.push_str(&format!("{}{}.{};", e.0, e.1, e.2));
            match e.0 {
                0 | 1 => {
                    let cl = &mut clients[e.1];
                    let k = if e.0 == 0 {
                        conns.push(new_conn(&router, overlap, &rt_handle));
                        cl.conns.push(ClientConn { conn: conns.len() - 1, sent_reqs: vec![], out: VecDeque::new(), answered: 0, aborted: false, consumed: 0, half_closed: false });
                        cl.conns.len() - 1
                    } else {
                        e.2
                    };
                    let ri = cl.next;
                    cl.next += 1;
                    let bytes = cl.reqs[ri].bytes.clone();
                    let cc = &mut cl.conns[k];
                    cc.sent_reqs.push(ri);
                    for b in bytes {
                        cc.out.push_back((ri, b));
                    }
                    max_open = max_open.max(conns.iter().filter(|c| !c.finished).count());
                    if cl.reqs[ri].fault == "duplicate_on_second_connection" && phase == 0 {
                        // the same request is delivered a second time on another connection (retry / duplicate)
                        *faults.entry("duplicate_on_second_connection".into()).or_insert(0) += 1;
                        fault_happened_at = Some(steps);
                        conns.push(new_conn(&router, overlap, &rt_handle));
                        let mut dup = ClientConn { conn: conns.len() - 1, sent_reqs: vec![ri], out: VecDeque::new(), answered: 0, aborted: false, consumed: 0, half_closed: false };
                        for b in cl.reqs[ri].bytes.clone() {
                            dup.out.push_back((ri, b));
                        }
                        cl.conns.insert(cl.conns.len() - 1, dup);
                    }
                }
                2 => {
                    let cl = &mut clients[e.1];
                    let (ri, _) = *cl.conns[e.2].out.front().unwrap();
                    let req = &cl.reqs[ri];
                    let total = req.bytes.len();
                    let remaining_of_req = cl.conns[e.2].out.iter().take_while(|x| x.0 == ri).count();
                    let sent_of_req = total - remaining_of_req;
                    let fault = if phase == 0 { req.fault.clone() } else { "none".into() };
                    // fault points inside the request
                    let cut = match fault.as_str() {
                        "close_mid_headers" => Some(req.header_len / 2),
                        "close_mid_body" if total > req.header_len + 1 => Some(req.header_len + (total - req.header_len) / 2),
                        _ => None,
                    };
                    let mut n = if req.chunk >= total { remaining_of_req } else { (1 + rng.usize(req.chunk)).min(remaining_of_req) };
                    if let Some(c) = cut {
                        if sent_of_req < c {
                            n = n.min(c - sent_of_req);
                        }
                    }
                    let cc = &mut cl.conns[e.2];
                    let sc = &conns[cc.conn];
                    {
                        let mut p = sc.pipe.0.lock().unwrap();
                        for _ in 0..n {
                            let (_, b) = cc.out.pop_front().unwrap();
                            p.to_server.push_back(b);
                        }
                    }
                    wake_server(sc);
                    if let Some(c) = cut {
                        if sent_of_req + n >= c {
                            // the client disappears in the middle of its request
                            *faults.entry(fault.clone()).or_insert(0) += 1;
                            fault_happened_at = Some(steps);
                            cc.aborted = true;
                            cc.out.clear();
                            for r in cc.sent_reqs[cc.answered..].to_vec() {
                                cl.excused.insert(r);
                            }
                            sc.pipe.0.lock().unwrap().client_gone = true;
                            wake_server(sc);
                        }
                    } else if remaining_of_req == n {
                        match fault.as_str() {
                            "close_before_response" => {
                                *faults.entry(fault.clone()).or_insert(0) += 1;
                                fault_happened_at = Some(steps);
                                cc.aborted = true;
                                for r in cc.sent_reqs[cc.answered..].to_vec() {
                                    cl.excused.insert(r);
                                }
                                sc.pipe.0.lock().unwrap().client_gone = true;
                                wake_server(sc);
                            }
                            "half_close_after_request" => {
                                *faults.entry(fault.clone()).or_insert(0) += 1;
                                fault_happened_at = Some(steps);
                                // hyper's default (half_close = false, as axum::serve uses it) treats a
                                // client that shuts down its write side as gone: its answer may be lost
                                for r in cc.sent_reqs[cc.answered..].to_vec() {
                                    cl.excused.insert(r);
                                }
                                // a client that has shut down its write side sends nothing more on this
                                // connection: whatever was pipelined behind goes to a new connection
                                if !cc.out.is_empty() {
                                    let first_unsent = cc.out.front().unwrap().0;
                                    cc.out.clear();
                                    let pos = cc.sent_reqs.iter().position(|&r| r == first_unsent).unwrap_or(cc.sent_reqs.len());
                                    for r in cc.sent_reqs[pos..].to_vec() {
                                        cl.excused.remove(&r);
                                    }
                                    cc.sent_reqs.truncate(pos);
                                    if cl.next > first_unsent {
                                        cl.next = first_unsent;
                                    }
                                }
                                cc.half_closed = true;
                                sc.pipe.0.lock().unwrap().client_write_closed = true;
                                wake_server(sc);
                            }
                            _ => {}
                        }
                    }
                }
                3 => {
                    let cl = &mut clients[e.1];
                    let cc = &mut cl.conns[e.2];
                    let sc = &conns[cc.conn];
                    let (buf, closed) = {
                        let p = sc.pipe.0.lock().unwrap();
                        (p.to_client.clone(), p.server_closed)
                    };
                    // fault: the client goes away half-way through reading a response
                    let pending_req = cc.sent_reqs.get(cc.answered).copied();
                    if let Some(ri) = pending_req {
                        if phase == 0 && cl.reqs[ri].fault == "close_mid_response" && buf.len() > cc.consumed {
                            *faults.entry("close_mid_response".into()).or_insert(0) += 1;
                            fault_happened_at = Some(steps);
                            cc.aborted = true;
                            for r in cc.sent_reqs[cc.answered..].to_vec() {
                                cl.excused.insert(r);
                            }
                            sc.pipe.0.lock().unwrap().client_gone = true;
                            wake_server(sc);
                            continue;
                        }
                    }
                    let (resps, used) = parse_responses(&buf[cc.consumed..], closed);
                    cc.consumed += used;
                    for r in resps {
                        match cc.sent_reqs.get(cc.answered).copied() {
                            Some(ri) => {
                                cc.answered += 1;
                                log.push_str(&format!("R{}={};", cl.reqs[ri].id, r.status));
                                if let Some(prev) = cl.answered.get(&ri) {
                                    // duplicate delivery: both answers must be acceptable; keep the first
                                    let _ = prev;
                                    check_response(&cl.reqs[ri], r.status, &r.body, &mut viols);
                                } else {
                                    check_response(&cl.reqs[ri], r.status, &r.body, &mut viols);
                                    cl.answered.insert(ri, (r.status, r.body));
                                }
                                if cl.reqs[ri].class == Class::ValidSolve && r.status == 200 {
                                    if let Some(f) = fault_happened_at {
                                        if steps > f {
                                            valid_after_fault = true;
                                        }
                                    }
                                }
                            }
                            None => v(&mut viols, "C18.unsolicited_response", format!("client {} received a response (status {}) it never asked for", e.1, r.status)),
                        }
                    }
                    if closed && cc.answered < cc.sent_reqs.len() && buf.len() <= cc.consumed {
                        // connection closed with requests outstanding: fine for a failing request and
                        // everything queued behind it on the same connection, not for a valid one in front
                        let first = cc.sent_reqs[cc.answered];
                        let front = &cl.reqs[first];
                        let panicked = conns[cc.conn].panicked.clone();
                        // a failing (or faulted) request earlier on this connection may legitimately take the
                        // connection down; what was pipelined behind it is retried on a new connection
                        // (an HTTP/1.0 request without keep-alive ends the connection after its response)
                        let poisoned = cc.sent_reqs[..=cc.answered].iter().any(|&r| matches!(cl.reqs[r].class, Class::Invalid | Class::Either) || cl.reqs[r].fault != "none")
                            || cc.sent_reqs[..cc.answered].iter().any(|&r| cl.reqs[r].kind == "solve_http10");
                        if !poisoned && matches!(front.class, Class::ValidSolve | Class::Health) && !cl.excused.contains(&first) && !cl.answered.contains_key(&first) {
                            v(
                                &mut viols,
                                &format!("C18.valid_request_dropped{}", panicked.as_ref().map(|p| format!(":{}", panic_signature(p))).unwrap_or_default()),
                                format!("connection of valid request {} ({}) was closed without an answer{}", front.id, front.kind, panicked.map(|p| format!("; handler panicked: {}", p)).unwrap_or_default()),
                            );
                        }
                        for r in cc.sent_reqs[cc.answered..].to_vec() {
                            cl.excused.insert(r);
                        }
                        // retry what was queued behind the failing request on a new connection
                        // - the front request failed itself (invalid / faulted): retry what is behind it;
                        // - the connection was taken down by an earlier failing request: retry from the front
                        //   (on a fresh connection it is the first request, so this cannot repeat);
                        // - a valid front request was dropped on a clean connection: reported above, not retried.
                        let front_failed_itself = matches!(front.class, Class::Invalid | Class::Either) || front.fault != "none";
                        let behind: Vec<usize> = if !front_failed_itself && poisoned { cc.sent_reqs[cc.answered..].to_vec() } else { cc.sent_reqs[cc.answered + 1..].to_vec() };
                        cc.answered = cc.sent_reqs.len();
                        cc.aborted = true;
                        if let Some(&b) = behind.first() {
                            if cl.next > b {
                                cl.next = b;
                                for r in behind {
                                    cl.excused.remove(&r);
                                }
                            }
                        }
                    }
                }
                _ => {
                    let others_suspended = conns.iter().enumerate().filter(|(j, c)| *j != e.1 && c.suspended.is_some()).count();
                    let was_suspended = conns[e.1].suspended.is_some();
                    poll_conn(&mut conns[e.1]);
                    if others_suspended > 0 && (was_suspended || conns[e.1].suspended.is_some()) {
                        *probes.entry("solve_ran_while_another_solve_was_suspended".into()).or_insert(0) += 1;
                    }
                    if let Some(tag) = conns[e.1].suspended {
                        *probes.entry(format!("preempted_at_{}", tag)).or_insert(0) += 1;
                    }
                    if conns[e.1].panicked.is_some() {
                        *probes.entry("connection_task_panicked".into()).or_insert(0) += 1;
                    }
                }
            }
        }
        if viols.iter().any(|x| x.check.starts_with("C18.step_cap") || x.check.starts_with("C18.stuck")) {
            break;
        }
    }
    // overlap mode: let every suspended solve run to completion, then stop the connection threads
    for c in conns.iter_mut() {
        let mut guard = 0;
        while c.suspended.is_some() && guard < 100 {
            poll_conn(c);
            guard += 1;
        }
        if let Some(r) = c.remote.as_mut() {
            let _ = r.cmd.send(Cmd::Quit);
            if let Some(h) = r.handle.take() {
                let _ = h.join();
            }
        }
    }
    // every valid, non-excused request got its 200
    for cl in &clients {
        for (ri, r) in cl.reqs.iter().enumerate() {
            if matches!(r.class, Class::ValidSolve | Class::Health) && !cl.excused.contains(&ri) && !cl.answered.contains_key(&ri) && viols.is_empty() {
                v(&mut viols, "C18.valid_request_unanswered", format!("valid request {} ({}) never got an answer", r.id, r.kind));
            }
        }
    }
    // a connection that only ever carried valid requests must not have panicked
    for cl in &clients {
        for cc in &cl.conns {
            if let Some(p) = &conns[cc.conn].panicked {
                if cc.sent_reqs.iter().all(|&r| matches!(cl.reqs[r].class, Class::ValidSolve | Class::Health | Class::OtherHttp)) && !cc.sent_reqs.is_empty() {
                    let excused = cc.sent_reqs.iter().any(|r| cl.reqs[*r].fault != "none");
                    if !excused {
                        v(&mut viols, &format!("C18.panic_on_valid_connection:{}", panic_signature(p)), format!("a connection carrying only valid requests panicked: {}", p));
                    }
                }
            }
        }
    }
    let n_faults: u64 = faults.values().sum();
    let nontrivial = max_open >= 2 && n_faults >= 1 && valid_after_fault;
    *probes.entry("max_open_connections".into()).or_insert(0) += max_open as u64;
    for cl in &clients {
        for r in &cl.reqs {
            *probes.entry(format!("req_{}", r.kind)).or_insert(0) += 1;
        }
    }
    json!({
        "outcome": "ok",
        "violations": viols.iter().map(|x| json!({"prop": x.prop, "check": x.check, "msg": x.msg})).collect::<Vec<_>>(),
        "probes": probes,
        "fault_kinds": faults,
        "nontrivial": {"C18": nontrivial},
        "digest": digest_str(&log),
        "steps": steps,
        "stats": {"connections": conns.len(), "steps": steps},
    })
}

fn check_response(req: &Req, status: u16, body: &[u8], viols: &mut Vec<Violation>) {
    let mut v = |check: String, msg: String| {
        if !viols.iter().any(|x| x.check == check) {
            viols.push(crate::oracle_out::viol("C18", &check, msg));
        }
    };
    let looks_like_schedule = || serde_json::from_slice::<Value>(body).map(|j| j.get("schedule").is_some()).unwrap_or(false);
    match req.class {
        Class::Health => {
            if status != 200 || body != b"Healthy" {
                v("C18.health".into(), format!("{}: GET /health answered {} {:?}", req.id, status, String::from_utf8_lossy(&body[..body.len().min(60)])));
            }
        }
        Class::Invalid => {
            if status == 200 || looks_like_schedule() {
                v(format!("C18.invalid_request_answered_200:{}", req.kind), format!("{} ({}) is invalid but was answered {} with a schedule-like body", req.id, req.kind, status));
            }
        }
        Class::Either => {
            // nothing to demand from a failure; a 200 is not checked further (the instance differs from
            // the one REF was given only in a cost coefficient, which no C18 oracle reads)
        }
        Class::OtherHttp => {
            if looks_like_schedule() {
                v("C18.non_solve_request_got_schedule".into(), format!("{} ({}) got a schedule", req.id, req.kind));
            }
        }
        Class::ValidSolve => {
            if status != 200 {
                v(format!("C18.valid_solve_status_{}", status), format!("{}: valid solve answered {} {:?}", req.id, status, String::from_utf8_lossy(&body[..body.len().min(120)])));
                return;
            }
            let out: Value = match serde_json::from_slice(body) {
                Ok(j) => j,
                Err(e) => {
                    v("C18.valid_solve_body_not_json".into(), format!("{}: body is not JSON: {}", req.id, e));
                    return;
                }
            };
            let inst = match RefInstance::parse(&req.instance) {
                Ok(i) => i,
                Err(_) => return,
            };
            match parse_output(&out) {
                Err(e) => v("C18.valid_solve_malformed_output".into(), format!("{}: {}", req.id, e)),
                Ok(o) => {
                    // its own solution: exactly its own ids (unique per request), feasible, views agree
                    let mut tmp = vec![];
                    check_c01(&inst, &o, &mut tmp);
                    check_c03(&inst, &o, &mut tmp);
                    if let Some(x) = tmp.first() {
                        v(format!("C18.not_its_own_valid_solution:{}", x.check), format!("{}: the answer is not a valid solution of the instance this request carried: {}", req.id, x.msg));
                    }
                }
            }
        }
    }
}
