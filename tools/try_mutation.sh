#!/bin/bash
# usage: try_mutation.sh <patch> <prop> [<prop>...]  -- applies the patch to /repo, runs the quick checks, reverts
P="$1"; shift
cd /repo || exit 2
if [ -n "$(git status --porcelain --untracked-files=no)" ]; then echo "/repo not clean"; exit 2; fi
git apply "$P" || { echo "patch does not apply"; exit 2; }
for prop in "$@"; do
  out=$(cd /verif && RSSV_VERIF_DIR=/verif timeout 1500 ./check $prop ${TIER:-quick} 2>&1); rc=$?
  echo "--- $prop exit=$rc"; echo "$out" | grep -E "^violation|^VIOLATION|^property|harness error|KNOWN" | cut -c1-400 | head -12
done
git -C /repo checkout -- . ; git -C /repo status --porcelain --untracked-files=no | head -3
