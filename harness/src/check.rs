//! `rssv check <property> <tier>`: run the batches of a property, aggregate, minimise and
//! confirm violations, honour known findings, write evidence.

use crate::driver::{JobResult, Pool};
use crate::rng::run_seed;
use serde_json::{json, Value};
use std::collections::{BTreeMap, BTreeSet};
use std::path::{Path, PathBuf};
use std::time::{Duration, Instant};

pub struct Batch {
    pub sim: &'static str,
    pub focus: &'static str,
    pub runs_quick: u64,
    pub runs_thorough: u64,
    pub profile: &'static str,
}

fn b(sim: &'static str, focus: &'static str, q: u64, t: u64, profile: &'static str) -> Batch {
    Batch {
        sim,
        focus,
        runs_quick: q,
        runs_thorough: t,
        profile,
    }
}

pub fn plan(prop: &str) -> Vec<Batch> {
    match prop {
        "C01" => vec![b("a", "C01", 10_000, 250_000, "release")],
        "C02" => vec![b("a", "C02", 10_000, 250_000, "release")],
        "C03" => vec![b("a", "C03", 10_000, 250_000, "release")],
        "C04" => vec![b("a", "C04", 10_000, 250_000, "release")],
        "C05" => vec![b("a", "C05", 10_000, 250_000, "release")],
        "C06" => vec![b("a", "C06", 8_000, 130_000, "release"), b("a", "C06", 4_000, 60_000, "checked")],
        "C07" => vec![b("a", "C07", 10_000, 250_000, "release")],
        "C08" => vec![b("a", "C08", 10_000, 250_000, "release")],
        "C09" => vec![b("b", "C09", 40_000, 1_500_000, "release")],
        "C10" => vec![b("b", "C10", 40_000, 1_500_000, "release")],
        "C11" => vec![b("b", "C11", 8_000, 150_000, "release")],
        "C12" => vec![b("b", "C12", 40_000, 1_500_000, "release"), b("b", "C12x", 400, 10_000, "release")],
        "C13" => vec![b("b", "C13", 40_000, 1_500_000, "release")],
        "C14" => vec![b("a", "C14", 50_000, 1_000_000, "release")],
        "C15" => vec![b("b", "C15", 40_000, 1_500_000, "release"), b("a", "C15", 5_000, 100_000, "release"), b("b", "C15x", 300, 8_000, "release")],
        "C16" => vec![b("a", "C16", 10_000, 250_000, "release")],
        "C17" => vec![b("a", "C17", 60_000, 1_000_000, "release")],
        "C18" => vec![b("c", "C18", 3_000, 70_000, "release")],
        _ => vec![],
    }
}

pub fn sim_id(sim: &str) -> u64 {
    match sim {
        "a" => 1,
        "b" => 2,
        "c" => 3,
        _ => 9,
    }
}

fn verif_dir() -> PathBuf {
    std::env::var("RSSV_VERIF_DIR").map(PathBuf::from).unwrap_or_else(|_| PathBuf::from("/verif"))
}

pub fn worker_bin(profile: &str) -> PathBuf {
    let me = std::env::current_exe().expect("current_exe");
    // .../target/<profile>/rssv
    let target = me.parent().and_then(|p| p.parent()).expect("target dir").to_path_buf();
    target.join(profile).join("rssv")
}

pub fn n_jobs() -> usize {
    std::env::var("RSSV_JOBS")
        .ok()
        .and_then(|s| s.parse().ok())
        .unwrap_or_else(|| std::thread::available_parallelism().map(|n| n.get()).unwrap_or(8).min(16))
}

#[derive(Clone, Debug)]
pub struct KnownFinding {
    pub property: String,
    pub pattern: String,
    pub text: String,
}

pub fn load_known_findings() -> Vec<KnownFinding> {
    let p = verif_dir().join("known_findings.txt");
    let mut out = vec![];
    if let Ok(s) = std::fs::read_to_string(p) {
        for line in s.lines() {
            let line = line.trim();
            if !line.starts_with("finding:") {
                continue; // comments and `fixed:` entries suppress nothing
            }
            let rest = line["finding:".len()..].trim();
            let mut property = String::new();
            let mut pattern = String::new();
            let mut text = vec![];
            for tok in rest.split_whitespace() {
                if let Some(p) = tok.strip_prefix("property=") {
                    property = p.to_string();
                } else if let Some(c) = tok.strip_prefix("check=") {
                    pattern = c.to_string();
                } else {
                    text.push(tok);
                }
            }
            if !property.is_empty() && !pattern.is_empty() {
                out.push(KnownFinding {
                    property,
                    pattern,
                    text: text.join(" "),
                });
            }
        }
    }
    out
}

pub fn known_match<'a>(kf: &'a [KnownFinding], prop: &str, check: &str) -> Option<&'a KnownFinding> {
    kf.iter().find(|k| {
        k.property == prop
            && match k.pattern.strip_suffix('*') {
                Some(pre) => check.starts_with(pre),
                None => check == k.pattern,
            }
    })
}

fn sanitize(s: &str) -> String {
    s.chars()
        .map(|c| if c.is_ascii_alphanumeric() || c == '.' || c == '-' { c } else { '_' })
        .take(80)
        .collect()
}

#[derive(Clone)]
pub struct Found {
    pub check: String,
    pub msg: String,
    pub seed: u64,
    pub case: Value,
    pub profile: String,
    pub job: usize,
    pub count: u64,
    /// further occurrences of the same check id (job, seed, case, msg, profile): tried when the first
    /// one does not show again in a fresh process (state left behind by earlier runs of the worker
    /// process made it fail, not its own case). Occurrences whose case carries its own process
    /// history (a prelude) come first.
    pub alternatives: Vec<(usize, u64, Value, String, String)>,
}

/// violations of `prop` in a worker answer
fn violations_of(result: &Value, prop: &str) -> Vec<(String, String)> {
    result["violations"]
        .as_array()
        .map(|a| {
            a.iter()
                .filter(|v| v["prop"].as_str() == Some(prop))
                .map(|v| (v["check"].as_str().unwrap_or("").to_string(), v["msg"].as_str().unwrap_or("").to_string()))
                .collect()
        })
        .unwrap_or_default()
}

pub struct Agg {
    pub evaluations: u64,
    pub outcomes: BTreeMap<String, u64>,
    pub probes: BTreeMap<String, u64>,
    pub nontrivial_digests: BTreeSet<String>,
    pub all_digests: BTreeSet<String>,
    pub other_props: BTreeMap<String, u64>,
    pub found: BTreeMap<String, Found>,
    pub samples: Vec<Value>,
    pub workers_hist: BTreeMap<String, u64>,
    pub fault_kinds: BTreeMap<String, u64>,
    pub steps: u64,
    pub not_dispatched: u64,
    pub max_cpu_s: f64,
    pub sum_cpu_s: f64,
}

impl Agg {
    fn new() -> Agg {
        Agg {
            evaluations: 0,
            outcomes: BTreeMap::new(),
            probes: BTreeMap::new(),
            nontrivial_digests: BTreeSet::new(),
            all_digests: BTreeSet::new(),
            other_props: BTreeMap::new(),
            found: BTreeMap::new(),
            samples: vec![],
            workers_hist: BTreeMap::new(),
            fault_kinds: BTreeMap::new(),
            steps: 0,
            not_dispatched: 0,
            max_cpu_s: 0.0,
            sum_cpu_s: 0.0,
        }
    }
}

fn trim_case_for_sample(case: &Value) -> Value {
    let mut c = case.clone();
    if let Some(o) = c.as_object_mut() {
        // keep samples readable: the instance is kept whole only when small
        if let Some(i) = o.get("instance") {
            if i.to_string().len() > 6000 {
                o.insert("instance".into(), json!(format!("<{} bytes, regenerate with `rssv gen`>", i.to_string().len())));
            }
        }
        if let Some(cl) = o.get("clients") {
            if cl.to_string().len() > 6000 {
                o.insert("clients".into(), json!(format!("<{} bytes, regenerate with `rssv gen`>", cl.to_string().len())));
            }
        }
    }
    c
}

fn record(agg: &mut Agg, prop: &str, profile: &str, job: usize, seed: u64, res: JobResult, jobs_case: Option<&Value>) {
    agg.evaluations += 1;
    let mut add_found = |agg: &mut Agg, check: String, msg: String, case: Value| {
        let e = agg.found.entry(check.clone()).or_insert(Found {
            check,
            msg: msg.clone(),
            seed,
            case: case.clone(),
            profile: profile.to_string(),
            job,
            count: 0,
            alternatives: vec![],
        });
        e.count += 1;
        {
            let has_pre = |c: &Value| c.get("prelude").map(|p| p.is_object()).unwrap_or(false) || c["sim"] == json!("c");
            e.alternatives.push((job, seed, case.clone(), msg.clone(), profile.to_string()));
            e.alternatives.sort_by_key(|a| (!has_pre(&a.2), a.0));
            let with: usize = e.alternatives.iter().filter(|a| has_pre(&a.2)).count().min(8);
            let mut kept_with = 0;
            let mut kept_without = 0;
            e.alternatives.retain(|a| {
                if has_pre(&a.2) {
                    kept_with += 1;
                    kept_with <= 8
                } else {
                    kept_without += 1;
                    kept_without <= 12usize.saturating_sub(with).max(4)
                }
            });
        }
        if job < e.job {
            e.job = job;
            e.seed = seed;
            e.case = case;
            e.msg = msg;
            e.profile = profile.to_string();
        }
    };
    match res {
        JobResult::Done(v) => {
            let r = &v["result"];
            let outcome = r["outcome"].as_str().unwrap_or("?").to_string();
            *agg.outcomes.entry(outcome.clone()).or_insert(0) += 1;
            if let Some(p) = r["probes"].as_object() {
                for (k, x) in p {
                    *agg.probes.entry(k.clone()).or_insert(0) += x.as_u64().unwrap_or(0);
                }
            }
            if let Some(p) = r["fault_kinds"].as_object() {
                for (k, x) in p {
                    *agg.fault_kinds.entry(k.clone()).or_insert(0) += x.as_u64().unwrap_or(0);
                }
            }
            agg.steps += r["steps"].as_u64().unwrap_or(0);
            let digest = r["digest"].as_str().unwrap_or("").to_string();
            if !digest.is_empty() {
                agg.all_digests.insert(digest.clone());
                if r["nontrivial"][prop].as_bool().unwrap_or(false) {
                    agg.nontrivial_digests.insert(digest);
                }
            }
            if let Some(a) = r["violations"].as_array() {
                for x in a {
                    let p = x["prop"].as_str().unwrap_or("");
                    if p != prop {
                        let n = agg.other_props.entry(p.to_string()).or_insert(0);
                        *n += 1;
                        if *n == 1 {
                            // kept for triage only; it is the other property's check that decides
                            if let Some(c) = v.get("case") {
                                let dir = verif_dir().join("replays");
                                let _ = std::fs::create_dir_all(&dir);
                                let _ = std::fs::write(
                                    dir.join(format!("seen_while_checking_{}_{}_{}.json", prop, p, seed)),
                                    serde_json::to_string_pretty(&json!({"property": p, "check": x["check"], "message": x["msg"], "seed": seed, "profile": profile, "note": format!("seen (not reported) by the {} check", prop), "case": c})).unwrap(),
                                );
                            }
                        }
                    }
                }
            }
            if let Some(c) = v.get("case") {
                if let Some(w) = c.get("workers").and_then(|x| x.as_u64()) {
                    *agg.workers_hist.entry(w.to_string()).or_insert(0) += 1;
                }
                if agg.samples.len() < 3 && outcome == "ok" {
                    agg.samples.push(json!({"seed": seed, "case": trim_case_for_sample(c), "stats": r["stats"]}));
                }
            }
            if outcome == "panic" && v.get("case").map(|c| c["sim"] != json!("a")).unwrap_or(false) {
                // every repo call of SIM-B / SIM-C is guarded: an escaping panic is a harness bug
                add_found(agg, "HARNESS.panic".into(), r["panic"].as_str().unwrap_or("").to_string(), v.get("case").cloned().unwrap_or(Value::Null));
            }
            if outcome == "invalid_case" {
                // generator produced something REF rejects: harness error, never a violation
                add_found(agg, "HARNESS.invalid_case".into(), r["panic"].as_str().unwrap_or("").to_string(), v.get("case").cloned().unwrap_or(Value::Null));
            }
            for (check, msg) in violations_of(r, prop) {
                let case = v.get("case").cloned().or_else(|| jobs_case.cloned()).unwrap_or(Value::Null);
                add_found(agg, check, msg, case);
            }
        }
        JobResult::Timeout { cpu_s } => {
            *agg.outcomes.entry("timed_out".into()).or_insert(0) += 1;
            if prop == "C06" {
                add_found(agg, "C06.timeout".into(), format!("run consumed {:.1} s CPU without returning", cpu_s), jobs_case.cloned().unwrap_or(Value::Null));
            }
            if prop == "C18" {
                // the worker process *is* the simulated server: it must keep answering
                add_found(agg, "C18.server_hangs".into(), format!("the simulated server consumed {:.1} s CPU without finishing the run", cpu_s), jobs_case.cloned().unwrap_or(Value::Null));
            }
        }
        JobResult::Died { detail } if detail.starts_with("HARNESS") => {
            *agg.outcomes.entry("harness_gave_up".into()).or_insert(0) += 1;
            add_found(agg, "HARNESS.panic".into(), detail, jobs_case.cloned().unwrap_or(Value::Null));
        }
        JobResult::Died { detail } => {
            *agg.outcomes.entry("worker_died".into()).or_insert(0) += 1;
            if prop == "C06" {
                add_found(agg, "C06.abort".into(), format!("worker process died during the run: {}", detail), jobs_case.cloned().unwrap_or(Value::Null));
            }
            if prop == "C18" {
                add_found(agg, "C18.server_process_died".into(), format!("the process hosting the simulated server died during the run (abort / fatal signal): {}", detail), jobs_case.cloned().unwrap_or(Value::Null));
            }
        }
    }
}

pub fn cpu_budget(tier: &str) -> f64 {
    std::env::var("RSSV_CPU_BUDGET")
        .ok()
        .and_then(|s| s.parse().ok())
        .unwrap_or(if tier == "thorough" { 60.0 } else { 30.0 })
}

/// CPU budget of a replay (and of the fresh-process confirmation before a violation is reported)
pub fn replay_budget() -> f64 {
    cpu_budget("thorough") * 4.0
}

/// Execute one explicit case in a fresh worker process; returns violations (prop, check, msg)
pub fn exec_fresh(profile: &str, case: &Value, want: &[&str], cpu_budget_s: f64) -> (Vec<(String, String, String)>, String) {
    let mut pool = Pool::new(worker_bin(profile), 1);
    let r = exec_in(&mut pool, case, want, cpu_budget_s);
    pool.shutdown();
    r
}

pub fn exec_in(pool: &mut Pool, case: &Value, want: &[&str], cpu_budget_s: f64) -> (Vec<(String, String, String)>, String) {
    let cmd = json!({"cmd": "exec", "case": case, "want": want});
    match pool.exec_one(cmd, cpu_budget_s) {
        JobResult::Done(v) => {
            let r = &v["result"];
            let vs = r["violations"]
                .as_array()
                .map(|a| {
                    a.iter()
                        .map(|x| (x["prop"].as_str().unwrap_or("").to_string(), x["check"].as_str().unwrap_or("").to_string(), x["msg"].as_str().unwrap_or("").to_string()))
                        .collect()
                })
                .unwrap_or_default();
            (vs, r["outcome"].as_str().unwrap_or("?").to_string())
        }
        JobResult::Timeout { cpu_s } => {
            let is_c = case["sim"] == json!("c");
            (vec![if is_c { ("C18".into(), "C18.server_hangs".into(), format!("the simulated server consumed {:.1} s CPU without finishing the run", cpu_s)) } else { ("C06".into(), "C06.timeout".into(), format!("run consumed {:.1} s CPU without returning", cpu_s)) }], "timed_out".into())
        }
        JobResult::Died { detail } => {
            let is_c = case["sim"] == json!("c");
            (vec![if is_c { ("C18".into(), "C18.server_process_died".into(), format!("the process hosting the simulated server died: {}", detail)) } else { ("C06".into(), "C06.abort".into(), format!("worker died: {}", detail)) }], "worker_died".into())
        }
    }
}

pub fn run_check(prop: &str, tier: &str) -> i32 {
    let t0 = Instant::now();
    let seed: u64 = std::env::var("VERIF_SEED").ok().and_then(|s| s.parse().ok()).unwrap_or(1);
    println!("VERIF_SEED={} property={} tier={}", seed, prop, tier);
    let batches = plan(prop);
    if batches.is_empty() {
        eprintln!("unknown property {}", prop);
        return 2;
    }
    let scale: f64 = std::env::var("RSSV_SCALE").ok().and_then(|s| s.parse().ok()).unwrap_or(1.0);
    let budget = cpu_budget(tier);
    let wall_cap = Duration::from_secs(
        std::env::var("RSSV_WALL_CAP")
            .ok()
            .and_then(|s| s.parse().ok())
            .unwrap_or(if tier == "thorough" { 1500 } else { 150 }),
    );
    let kf = load_known_findings();
    let mut agg = Agg::new();
    let mut profiles = vec![];
    let mut sims = BTreeSet::new();
    let mut total_planned = 0u64;
    for (bi, batch) in batches.iter().enumerate() {
        let runs = ((if tier == "thorough" { batch.runs_thorough } else { batch.runs_quick }) as f64 * scale).max(1.0) as u64;
        total_planned += runs;
        profiles.push(batch.profile.to_string());
        sims.insert(batch.sim);
        let bin = worker_bin(batch.profile);
        if !bin.exists() {
            eprintln!("harness error: worker binary {} missing", bin.display());
            return 2;
        }
        let mut pool = Pool::new(bin, n_jobs());
        let sid = sim_id(batch.sim) * 100 + bi as u64;
        let seeds: Vec<u64> = (0..runs).map(|i| run_seed(seed, sid, i)).collect();
        let jobs: Vec<Value> = seeds
            .iter()
            .enumerate()
            .map(|(i, s)| json!({"cmd": "run", "sim": batch.sim, "focus": batch.focus, "seed": s, "want": [prop], "want_case": i < 40}))
            .collect();
        let mut timeouts: Vec<usize> = vec![];
        let mut timeout_results: BTreeMap<usize, JobResult> = BTreeMap::new();
        // a code change that makes most runs hang must not make the check itself run for hours:
        // after this many runs over budget nothing more is dispatched
        pool.max_timeouts = 64;
        // SIM-C runs are whole process histories (many requests on the same threads): each gets a
        // process of its own, so that what it starts from (heap layout included) is what `replay`
        // gives it. Too expensive (~50 ms per run) for the short SIM-A / SIM-B runs, which get their
        // history from an explicit prelude instead.
        pool.fresh_process_per_job = batch.sim == "c" && std::env::var("RSSV_FRESH_PROCESS").map(|v| v != "0").unwrap_or(true);
        let job_base = bi * 100_000_000;
        let nd = {
            let agg_ref = &mut agg;
            pool.run_batch(&jobs, budget, wall_cap.saturating_sub(t0.elapsed()).max(Duration::from_secs(5)), |j, r| {
                if matches!(r, JobResult::Timeout { .. }) {
                    timeouts.push(j);
                    timeout_results.insert(j, r);
                } else {
                    let case_for_death = match &r {
                        JobResult::Done(_) => None,
                        _ => Some(crate::worker::gen_case(batch.sim, seeds[j], batch.focus)),
                    };
                    record(agg_ref, prop, batch.profile, j + job_base, seeds[j], r, case_for_death.as_ref());
                }
            })
        };
        agg.not_dispatched += nd as u64;
        // a timeout is re-run once alone with twice the budget before it counts
        if !timeouts.is_empty() {
            pool.max_timeouts = usize::MAX;
            // the first few are re-run; if one of them is over the doubled budget again the hang is
            // systematic and the remaining ones count as they are, otherwise (load noise) all are re-run
            let first: Vec<usize> = timeouts.iter().copied().take(8).collect();
            let rest: Vec<usize> = timeouts.iter().copied().skip(8).collect();
            let rerun: Vec<Value> = first.iter().map(|&j| jobs[j].clone()).collect();
            let mut rr: Vec<(usize, JobResult)> = vec![];
            pool.run_batch(&rerun, budget * 2.0, Duration::from_secs(3600), |k, r| rr.push((first[k], r)));
            let systematic = rr.iter().any(|(_, r)| matches!(r, JobResult::Timeout { .. }));
            if !rest.is_empty() {
                if systematic {
                    for j in rest {
                        if let Some(r) = timeout_results.remove(&j) {
                            rr.push((j, r));
                        }
                    }
                } else {
                    let rerun2: Vec<Value> = rest.iter().map(|&j| jobs[j].clone()).collect();
                    pool.run_batch(&rerun2, budget * 2.0, Duration::from_secs(3600), |k, r| rr.push((rest[k], r)));
                }
            }
            for (j, r) in rr {
                let case_for_timeout = match &r {
                    JobResult::Done(_) => None,
                    _ => Some(crate::worker::gen_case(batch.sim, seeds[j], batch.focus)),
                };
                record(&mut agg, prop, batch.profile, j + job_base, seeds[j], r, case_for_timeout.as_ref());
            }
        }
        agg.max_cpu_s = agg.max_cpu_s.max(pool.max_cpu_s);
        agg.sum_cpu_s += pool.sum_cpu_s;
        pool.shutdown();
    }

    // ---------------- violations: known findings, minimise, confirm, report -------------------
    let mut exit = 0;
    let mut reported = 0u64;
    let mut known_reported = 0u64;
    let mut unconfirmed = 0u64;
    if let Some(f) = agg.found.get("HARNESS.invalid_case") {
        eprintln!("harness error: generator produced an instance REF rejects (seed {}): {}", f.seed, f.msg);
        let _ = std::fs::create_dir_all(verif_dir().join("replays"));
        let _ = std::fs::write(verif_dir().join("replays").join(format!("HARNESS_invalid_case_{}.json", f.seed)), serde_json::to_string_pretty(&f.case).unwrap());
        return 2;
    }
    if let Some(f) = agg.found.get("HARNESS.panic") {
        eprintln!("harness error: simulator code panicked outside guarded repo calls (seed {}): {}", f.seed, f.msg);
        return 2;
    }
    let max_reports = if tier == "thorough" { 12 } else { 6 };
    let founds: Vec<Found> = agg.found.values().cloned().collect();
    for f in founds.iter() {
        if let Some(k) = known_match(&kf, prop, &f.check) {
            println!("KNOWN-FINDING: property={} check={} {} [{} run(s) this batch, e.g. seed {}]", prop, f.check, k.text, f.count, f.seed);
            known_reported += 1;
            continue;
        }
        if reported >= max_reports {
            println!("(further violation class not minimised: {} x{})", f.check, f.count);
            exit = 1;
            continue;
        }
        let shrink_budget = if tier == "thorough" { 400 } else { 150 };
        let (min_case, steps) = crate::shrink::minimise(&f.profile, &f.case, prop, &f.check, budget, shrink_budget);
        // fresh-process confirmation of the (minimised) replay, with the budget `replay` uses: a run
        // that panics only after a long search must not turn into a timeout when it is replayed
        let confirm_budget = replay_budget();
        let (vs, _) = exec_fresh(&f.profile, &min_case, &[prop], confirm_budget);
        let confirmed_min = vs.iter().any(|(p, c, _)| p == prop && *c == f.check);
        let mut check_id = f.check.clone();
        let mut steps_total = steps;
        let mut rep_seed = f.seed;
        let mut rep_profile = f.profile.clone();
        let (final_case, minimised, msg) = if confirmed_min {
            let m = vs.iter().find(|(p, c, _)| p == prop && *c == f.check).map(|x| x.2.clone()).unwrap_or_default();
            (min_case, true, m)
        } else {
            let (vs0, _) = exec_fresh(&f.profile, &f.case, &[prop], confirm_budget);
            if let Some(x) = vs0.iter().find(|(p, c, _)| p == prop && *c == f.check) {
                (f.case.clone(), false, x.2.clone())
            } else if let Some(x) = vs0.iter().find(|(p, _, _)| p == prop) {
                // the same input violates the same property, but in the fresh process the first
                // symptom is another one (typically: a search that ran into the CPU budget in the
                // batch panics later, or the other way round). Report what the replay file will show.
                eprintln!("note: {} (seed {}) shows as {} when replayed alone; reporting that", f.check, f.seed, x.1);
                check_id = x.1.clone();
                if known_match(&kf, prop, &check_id).is_some() {
                    println!("KNOWN-FINDING: property={} check={} [seed {}]", prop, check_id, f.seed);
                    known_reported += 1;
                    continue;
                }
                (f.case.clone(), false, x.2.clone())
            } else {
                // other occurrences of the same class, those with their own process history first
                let mut hit: Option<(Value, bool, String)> = None;
                for (_, aseed, acase, _, aprofile) in f.alternatives.iter() {
                    if *aseed == f.seed {
                        continue;
                    }
                    let (va, _) = exec_fresh(aprofile, acase, &[prop], confirm_budget);
                    let found = va.iter().find(|(p, c, _)| p == prop && *c == f.check).or_else(|| va.iter().find(|(p, _, _)| p == prop)).cloned();
                    if let Some(x) = found {
                        let (m2, st2) = crate::shrink::minimise(aprofile, acase, prop, &x.1, budget, shrink_budget);
                        let (vm, _) = exec_fresh(aprofile, &m2, &[prop], confirm_budget);
                        steps_total = steps + st2;
                        check_id = x.1.clone();
                        rep_seed = *aseed;
                        rep_profile = aprofile.clone();
                        hit = Some(match vm.iter().find(|(p, c, _)| p == prop && *c == x.1) {
                            Some(y) => (m2, true, y.2.clone()),
                            None => (acase.clone(), false, x.2.clone()),
                        });
                        eprintln!("note: {} did not show again for seed {} alone (it depended on what the worker process had run before); seed {} reproduces it from its own case", f.check, f.seed, aseed);
                        break;
                    }
                }
                match hit {
                    Some(h) => h,
                    None => {
                        eprintln!("harness warning: violation {} (seed {} and {} other occurrence(s)) did not reproduce in a fresh process; not reported", f.check, f.seed, f.alternatives.len().saturating_sub(1));
                        unconfirmed += 1;
                        continue;
                    }
                }
            }
        };
        let steps = steps_total;
        let dir = verif_dir().join("replays");
        let _ = std::fs::create_dir_all(&dir);
        let path = dir.join(format!("{}_{}_{}.json", prop, sanitize(&check_id), rep_seed));
        let replay = json!({
            "property": prop,
            "check": check_id,
            "message": msg,
            "seed": rep_seed,
            "batch_seed": seed,
            "profile": rep_profile,
            "minimised": minimised,
            "shrink_executions": steps,
            "occurrences_in_batch": f.count,
            "case": final_case,
        });
        std::fs::write(&path, serde_json::to_string_pretty(&replay).unwrap()).expect("write replay");
        println!("violation: {} — {}", check_id, msg);
        println!("VIOLATION property={} replay={}", prop, path.display());
        reported += 1;
        exit = 1;
    }

    // ---------------- evidence -------------------------------------------------------------------
    let wall = t0.elapsed().as_secs_f64();
    write_evidence(prop, tier, seed, &agg, &batches, total_planned, wall, reported, known_reported, &founds, &kf);
    println!(
        "property={} tier={} runs={} distinct_nontrivial={} outcomes={:?} violations_reported={} known_findings={} wall={:.1}s",
        prop,
        tier,
        agg.evaluations,
        agg.nontrivial_digests.len(),
        agg.outcomes,
        reported,
        known_reported,
        wall
    );
    if unconfirmed > 0 && exit == 0 {
        // something was observed that a fresh process does not show again and nothing else was
        // confirmed: that is a defect of the harness (a source of nondeterminism it does not own),
        // not a verdict about the property
        eprintln!("harness error: {} observation(s) did not reproduce in a fresh process and no violation was confirmed", unconfirmed);
        return 2;
    }
    exit
}

fn rule_for(prop: &str) -> &'static str {
    match prop {
        "C01" => "seeded swarm instances through server::solve_instance and internal::run; non-trivial: >= 2 vehicles and a vehicle with >= 2 activities; distinct by digest of (output JSON minus info, stage values, LS trajectory)",
        "C02" => "seeded swarm instances (limit on type only / segment only / both / neither; depots absent, ample, scarce, empty, zero); non-trivial: some formation/track limit or depot capacity is binding; distinct by run digest",
        "C03" => "seeded swarm instances; non-trivial: >= 1 coupled formation and >= 1 dead-head trip; distinct by run digest",
        "C04" => "seeded swarm instances; non-trivial: maintenance slots present and >= 2 vehicles of one type; distinct by run digest",
        "C05" => "seeded swarm instances; non-trivial: a cycle of length >= 2 whose members start in different depots; distinct by run digest",
        "C06" => "seeded swarm instances biased to the regions the property names, two build profiles (release, checked = release + overflow-checks + debug-assertions), CPU-time watchdog; every run is non-trivial; distinct by run digest",
        "C07" => "seeded swarm instances; non-trivial: a segment needs >= 2 vehicles or more than its limit; distinct by run digest",
        "C08" => "seeded swarm instances with maintenance slots; non-trivial: the search accepted >= 1 step; distinct by run digest",
        "C09" | "C10" | "C13" => "seeded operation sequences on Schedule through the public API next to a reference state; non-trivial: >= 3 successful operations of >= 2 kinds; distinct by digest of (instance, op sequence)",
        "C11" => "seeded non-improving walks through RSSchedParallelNeighborhood, all candidates of each state; non-trivial: >= 3 swap kinds produced candidates; distinct by digest of (instance, walk)",
        "C12" => "batch 1: seeded tour edits (insert/remove/sub_path/conflict) inside operation histories on tie-rich, partly non-metric networks against the executable reference; batch 2 (small scope, exhaustive per network): on each of N seeded networks with <= 7 activities per type, ALL valid tours (two depot pairs incl. overflow, and as dummy tours), ALL valid paths of <= 3 activities (with/without leading/trailing depot) and ALL segments are compared (logical_steps counts these comparisons); the networks themselves are sampled; non-trivial: >= 3 successful operations of >= 2 kinds (batch 1) / >= 50 comparisons (batch 2); distinct by digest",
        "C14" => "seeded instances without type coupling through MinCostFlowSolver::solve vs an independent successive-shortest-path optimum; non-trivial: >= 2 vehicles and >= 1 chained pair; distinct by digest",
        "C15" => "batch 3 (small bound, exhaustive per start state): ALL sequences of <= 3 operations (move / remove / add at the end / add to own cycle / 3-opt, every argument) on <= 4 vehicles, every intermediate transition checked (logical_steps counts the states). Batches 1-2: seeded Transition operation sequences against Vec<Vec<VehicleIdx>> plus optimiser input/output in the pipeline; non-trivial: >= 3 operations on >= 2 cycles (ops) / >= 2 cycles or optimiser changed a cycle (pipeline); distinct by digest",
        "C16" => "seeded swarm instances with slots, stage snapshots of one solve_instance call; non-trivial: optimiser changed a cycle or the search accepted a step; distinct by run digest",
        "C17" => "seeded instances on tie-rich grids, all ordered node pairs; non-trivial: >= 1 pair whose times tie exactly; distinct by digest of the instance",
        "C18" => "seeded client scripts, chunked delivery, interleaved polls and faults against the real axum Router over simulated pipes; non-trivial: >= 2 overlapping connections, >= 1 fault and >= 1 valid solve completing after it; distinct by digest of (scripts, schedule trace)",
        _ => "",
    }
}

#[allow(clippy::too_many_arguments)]
fn write_evidence(
    prop: &str,
    tier: &str,
    seed: u64,
    agg: &Agg,
    batches: &[Batch],
    planned: u64,
    wall: f64,
    reported: u64,
    known: u64,
    founds: &[Found],
    kf: &[KnownFinding],
) {
    let sims: BTreeSet<&str> = batches.iter().map(|b| b.sim).collect();
    let mut real = vec![];
    let mut stub = vec![];
    if sims.contains("a") {
        real.push("model, solution, solver, server::solve_instance, internal::run, rapid_solve, rs-graph network simplex, rayon (per-run pool)");
        stub.push("hash seeds (getrandom interposed), output 'info' block ignored, stdout discarded");
    }
    if sims.contains("b") {
        real.push("solution::{Schedule, Tour, Transition, Path, Segment} public API, solver neighbourhood and swaps, model::Network");
        stub.push("hash seeds (getrandom interposed); reference state is harness code");
    }
    if sims.contains("c") {
        real.push("axum Router built by server main (via H3), Json extractor, handlers, server::solve_instance, hyper HTTP/1 connection state machine");
        stub.push("TCP listener/socket (in-memory SimPipe), tokio runtime and task spawning (hand-rolled seeded executor with catch_unwind per connection; in overlap runs one parked OS thread per connection, released one at a time by the seeded scheduler at the H2 stage boundaries), no timers exist");
    }
    let mut samples = agg.samples.clone();
    if samples.is_empty() {
        samples.push(json!({"note": "no run completed"}));
    }
    let runs_per_hour = if wall > 0.0 { (agg.evaluations as f64 / wall * 3600.0) as u64 } else { 0 };
    let ev = json!({
        "property_id": prop,
        "tier": tier,
        "seed": seed,
        "level": "exploration",
        "coverage": {
            "evaluations": agg.evaluations,
            "distinct_nontrivial": agg.nontrivial_digests.len(),
            "rule": rule_for(prop),
            "samples": samples,
            "runs_planned": planned,
            "runs_not_dispatched_wall_cap": agg.not_dispatched,
            "runs_per_hour": runs_per_hour,
            "distinct_states": agg.all_digests.len(),
            "distinct_states_measure": "digest of the recorded event log of a run (output minus info, stage snapshots, trajectories, op results or HTTP event order)",
            "outcomes": agg.outcomes,
            "probes": agg.probes,
            "fault_kinds": agg.fault_kinds,
            "logical_steps": agg.steps,
            "cpu_seconds_per_run": {"mean": if agg.evaluations > 0 { agg.sum_cpu_s / agg.evaluations as f64 } else { 0.0 }, "max": agg.max_cpu_s, "budget": cpu_budget(tier), "note": "CPU time of the worker process between dispatch and answer (all pool threads); a run over budget is re-run once alone with twice the budget before it counts"},
            "simulated_time": "not applicable: the system has no timers or deadlines; logical steps are counted instead",
            "profiles": batches.iter().map(|b| b.profile).collect::<Vec<_>>(),
            "workers_histogram_of_sampled_runs": agg.workers_hist,
            "violations_of_other_properties_seen_not_reported": agg.other_props,
            "violation_classes": founds.iter().map(|f| json!({"check": f.check, "count": f.count, "known_finding": known_match(kf, prop, &f.check).is_some()})).collect::<Vec<_>>(),
            "components": {"real": real, "stub": stub},
            "exhaustive": false
        },
        "assumptions": [
            "REF conventions (DESIGN.md section 3): staff term = #departure segments x costs.staff; legs to/from the overflow depot are compared exactly only through the repo's public constants INF_DISTANCE / planning_days, otherwise as lower bounds",
            "REF mirrors the loader's two documented clamps (dead-head duration > planning duration -> planning duration; distance > 1000 km -> 1000 km); generated instances reach both through sentinel values (100000 s / 5000 km)",
            "info block, vehicle ids, dead-head trip ids and list orders are not compared",
            "rayon's steal order is not controlled; results are compared across worker counts instead (selftest)",
            "sampling, not enumeration (except the C12x / C15x small-scope parts): <= 18 departure segments, <= 3 types, <= 5 locations, <= 3 planning days"
        ],
        "wall_s": wall,
        "violations": reported,
        "known_findings_reported": known
    });
    let dir = verif_dir().join("evidence");
    let _ = std::fs::create_dir_all(&dir);
    let path = dir.join(format!("{}.json", prop));
    std::fs::write(&path, serde_json::to_string_pretty(&ev).unwrap()).expect("write evidence");
}

pub fn run_replay(path: &Path) -> i32 {
    let s = match std::fs::read_to_string(path) {
        Ok(s) => s,
        Err(e) => {
            eprintln!("cannot read {}: {}", path.display(), e);
            return 2;
        }
    };
    let r: Value = match serde_json::from_str(&s) {
        Ok(v) => v,
        Err(e) => {
            eprintln!("bad replay file: {}", e);
            return 2;
        }
    };
    let prop = r["property"].as_str().unwrap_or("");
    let check = r["check"].as_str().unwrap_or("");
    let profile = r["profile"].as_str().unwrap_or("release");
    let (vs, outcome) = exec_fresh(profile, &r["case"], &[prop], replay_budget());
    println!("replay outcome: {}", outcome);
    for (p, c, m) in &vs {
        println!("  {} {} — {}", p, c, m);
    }
    if vs.iter().any(|(p, c, _)| p == prop && c == check) {
        println!("VIOLATION property={} replay={}", prop, path.display());
        1
    } else {
        println!("replay did not reproduce {} {}", prop, check);
        0
    }
}
