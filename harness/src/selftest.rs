//! Determinism self-test: the same seeds executed twice, in different processes and with
//! different worker-pool sizes, must give identical run digests. Exit 2 on any difference.

use crate::check::{n_jobs, sim_id, worker_bin};
use crate::driver::{JobResult, Pool};
use crate::rng::run_seed;
use serde_json::{json, Value};
use std::collections::BTreeMap;
use std::time::Duration;

pub fn run(tier: &str) -> i32 {
    let n: u64 = if tier == "thorough" { 400 } else { 120 };
    let seed: u64 = std::env::var("VERIF_SEED").ok().and_then(|s| s.parse().ok()).unwrap_or(1);
    let mut failures = 0;
    let mut total = 0u64;
    for (sim, focus) in [("a", "C08"), ("a", "C06"), ("b", "C09"), ("b", "C11"), ("b", "C15"), ("c", "C18")] {
        let seeds: Vec<u64> = (0..n).map(|i| run_seed(seed, 7000 + sim_id(sim), i)).collect();
        // executions: (pool size of the parent, workers override)
        let configs: Vec<(usize, Option<u64>)> = vec![(n_jobs(), None), (3, None), (n_jobs(), Some(1)), (5, Some(2)), (n_jobs(), Some(4)), (2, Some(8))];
        let mut digests: Vec<BTreeMap<u64, String>> = vec![];
        for (procs, w) in &configs {
            let mut pool = Pool::new(worker_bin("release"), *procs);
            let jobs: Vec<Value> = seeds
                .iter()
                .map(|s| {
                    let mut case = crate::worker::gen_case(sim, *s, focus);
                    if let Some(w) = w {
                        case["workers"] = json!(w);
                    }
                    json!({"cmd": "exec", "case": case, "want": [focus]})
                })
                .collect();
            let mut d = BTreeMap::new();
            pool.run_batch(&jobs, 20.0, Duration::from_secs(1200), |j, r| {
                let s = match r {
                    JobResult::Done(v) => format!("{}|{}", v["result"]["outcome"].as_str().unwrap_or("?"), v["result"]["digest"].as_str().unwrap_or("")),
                    JobResult::Timeout { .. } => "timeout".to_string(),
                    JobResult::Died { .. } => "died".to_string(),
                };
                d.insert(seeds[j], s);
            });
            pool.shutdown();
            digests.push(d);
        }
        for s in &seeds {
            total += 1;
            let first = &digests[0][s];
            for (k, d) in digests.iter().enumerate().skip(1) {
                if &d[s] != first {
                    failures += 1;
                    println!("NONDETERMINISM sim={} focus={} seed={} config0={} config{}={}", sim, focus, s, first, k, d[s]);
                    break;
                }
            }
        }
        println!("selftest sim={} focus={} seeds={} configs={} ok", sim, focus, seeds.len(), configs.len());
    }
    println!("selftest: {} seeds x 6 executions, {} divergent", total, failures);
    if failures > 0 {
        2
    } else {
        0
    }
}
