//! C11: arbitrary (non-improving) walks through the local-search neighbourhood; every
//! candidate of every visited schedule is checked for validity and truthful objective.

use crate::refstate::*;
use crate::rng::{digest_str, Rng};
use crate::seams::{guarded, panic_signature};
use crate::sim_b::Ctx;
use rapid_solve::heuristics::common::ParallelNeighborhood;
use rapid_time::Duration;
use rayon::iter::ParallelIterator;
use serde_json::Value;
use solution::Schedule;
use solver::local_search::neighborhood::swaps::SwapInfo;
use solver::local_search::neighborhood::RSSchedParallelNeighborhood;
use solver::local_search::ScheduleWithInfo;
use std::collections::BTreeSet;

fn neighbourhood(cx: &Ctx, case: &Value) -> RSSchedParallelNeighborhood {
    let lim = case["segment_limit"].as_i64().unwrap_or(10800);
    let thr = case["overhead_threshold"].as_i64().unwrap_or(600);
    RSSchedParallelNeighborhood::new(
        if lim <= 0 { None } else { Some(Duration::from_seconds(lim as u64)) },
        if thr < 0 { None } else { Some(Duration::from_seconds(thr as u64)) },
        cx.ad.nw.clone(),
    )
}

fn swap_kind(i: &SwapInfo) -> &'static str {
    match i {
        SwapInfo::SpawnVehicleForMaintenance(_) => "SpawnVehicleForMaintenance",
        SwapInfo::PathExchange(_) => "PathExchange",
        SwapInfo::AddTripForHitchHiking(_) => "AddTripForHitchHiking",
        SwapInfo::RemoveSingleNode(_) => "RemoveSingleNode",
        SwapInfo::NoSwap => "NoSwap",
    }
}

/// `swap` operation of the op-sequence mode: the pick-th candidate of one of the four iterators
pub fn pick_candidate(cx: &mut Ctx, s: &Schedule, op: &Value) -> Option<Schedule> {
    let nb = RSSchedParallelNeighborhood::new(Some(Duration::from_seconds(10800)), Some(Duration::from_seconds(0)), cx.ad.nw.clone());
    let swi = ScheduleWithInfo::new(s.clone(), SwapInfo::NoSwap, String::new());
    let kind = op["kind"].as_u64().unwrap_or(0);
    let r = guarded(|| -> Vec<ScheduleWithInfo> {
        match kind {
            0 => nb.spawn_vehicle_for_maintenance_iterator(&swi).collect(),
            1 => nb.segment_exchange_iterator(&swi).collect(),
            2 => nb.hitch_hiking_iterator(&swi).collect(),
            _ => nb.remove_single_node_iterator(&swi).collect(),
        }
    });
    match r {
        Err(p) => {
            cx.v("C11", &format!("C11.candidate_generation_panics:{}", panic_signature(&p)), format!("neighbourhood iterator {} panicked: {}", kind, p));
            None
        }
        Ok(c) if c.is_empty() => None,
        Ok(c) => {
            let k = (op["pick"].as_u64().unwrap_or(0) as usize) % c.len();
            cx.probe(&format!("swap_applied_{}", swap_kind(&c[k].get_last_swap_info())));
            Some(c[k].get_schedule().clone())
        }
    }
}

pub fn run_walk(cx: &mut Ctx, s: &mut Schedule, case: &Value) -> bool {
    let nb = neighbourhood(cx, case);
    let mut rng = Rng::new(case["ops_seed"].as_u64().unwrap_or(0));
    let n = case["n_ops"].as_u64().unwrap_or(4) as usize;
    let workers = case["workers"].as_u64().unwrap_or(1) as usize;
    let objective = solver::objective::build();
    let mut kinds: BTreeSet<&'static str> = BTreeSet::new();
    let mut swi = ScheduleWithInfo::new(s.clone(), SwapInfo::NoSwap, "start".into());
    let pool1 = rayon::ThreadPoolBuilder::new().num_threads(1).build().expect("pool");
    for step in 0..n {
        let base = snap(&cx.ad, swi.get_schedule());
        let cands = match guarded(|| nb.neighbors_of(&swi).collect::<Vec<ScheduleWithInfo>>()) {
            Ok(c) => c,
            Err(p) => {
                cx.v("C11", &format!("C11.candidate_generation_panics:{}", panic_signature(&p)), format!("step {}: generating candidates panicked: {}", step, p));
                cx.steps += 1;
                break;
            }
        };
        cx.steps += 1;
        if snap(&cx.ad, swi.get_schedule()) != base {
            cx.v("C11", "C11.base_schedule_changed", format!("step {}: generating candidates changed the base schedule", step));
        }
        let digests: Vec<String> = cands.iter().map(|c| digest_str(&snap(&cx.ad, c.get_schedule()).canon())).collect();
        if workers > 1 {
            // the same neighbourhood evaluated by a single worker must give the same candidates
            let c1 = guarded(|| pool1.install(|| nb.neighbors_of(&swi).collect::<Vec<ScheduleWithInfo>>()));
            match c1 {
                Ok(c1) => {
                    let mut d1: Vec<String> = c1.iter().map(|c| digest_str(&snap(&cx.ad, c.get_schedule()).canon())).collect();
                    let mut dw = digests.clone();
                    if d1 != dw {
                        cx.probe("candidate_order_differs_between_pools");
                    }
                    d1.sort();
                    dw.sort();
                    if d1 != dw {
                        // not demanded by the property (a neighbourhood may sample); recorded because the
                        // simulator's claim that the worker count cannot influence results rests on it
                        cx.probe("candidate_multiset_differs_between_pools");
                    }
                }
                Err(p) => cx.v("C11", &format!("C11.candidate_generation_panics:{}", panic_signature(&p)), format!("step {}: generating candidates (1 worker) panicked: {}", step, p)),
            }
        }
        *cx.probes.entry("candidates".into()).or_insert(0) += cands.len() as u64;
        if cands.is_empty() {
            break;
        }
        // sample down to 300 for the full checks
        let mut idx: Vec<usize> = (0..cands.len()).collect();
        if idx.len() > 300 {
            rng.shuffle(&mut idx);
            idx.truncate(300);
            idx.sort();
        }
        for &i in &idx {
            let c = &cands[i];
            let sch = c.get_schedule();
            let sn = snap(&cx.ad, sch);
            let kind = swap_kind(&c.get_last_swap_info());
            kinds.insert(kind);
            let ctx = format!("step {} candidate '{}'", step, c.get_print_text());
            let mut tmp = vec![];
            check_c10(&cx.ad, &cx.inst, sch, &sn, &ctx, &mut tmp);
            check_c09(&cx.ad, &cx.inst, sch, &sn, &ctx, false, &mut tmp);
            for mut v in tmp {
                // a broken candidate is this property's business
                let check = format!("C11.candidate_{}:{}", kind, v.check);
                if !cx.out.iter().any(|o| o.check == check) {
                    v.msg = format!("[{} / {}] {}", v.prop, v.check, v.msg);
                    v.prop = "C11";
                    v.check = check;
                    cx.out.push(v);
                }
            }
            // objective indicators vs recomputation
            let ev = objective.evaluate(c.clone());
            let got = solver::verif_hooks::objective_vector(ev.objective_value());
            if let Ok(sd) = cx.ad.sched_data(sch) {
                if let Ok(r) = cx.inst.evaluate(&sd, Some(cx.ad.conv)) {
                    let want = vec![r.unserved as i64, r.violation, r.vehicles as i64, r.costs as i64];
                    if got != want {
                        let check = format!("C11.objective_not_truthful_{}", kind);
                        if !cx.out.iter().any(|o| o.check == check) {
                            cx.v("C11", &check, format!("{}: objective {:?} but recomputation gives {:?}", ctx, got, want));
                        }
                    }
                }
            }
        }
        if !cx.out.is_empty() {
            break;
        }
        // arbitrary (not only improving) next state
        let k = rng.usize(cands.len());
        cx.log.push_str(&format!("{}:{}|", step, digests[k]));
        swi = cands[k].clone();
    }
    *s = swi.get_schedule().clone();
    for k in &kinds {
        cx.probe(&format!("candidates_of_{}", k));
    }
    kinds.len() >= 3
}
