//! REF — the reference model every oracle is built from. It never calls repo code: it parses
//! the input JSON itself and implements the property statements / README directly.

use serde_json::Value;
use std::collections::BTreeMap;

pub const UNLIMITED: u64 = u64::MAX;

#[derive(Clone, Debug)]
pub struct RefType {
    pub id: String,
    pub capacity: u64,
    pub seats: u64,
    pub limit: Option<u64>,
}

#[derive(Clone, Debug)]
pub struct RefDepot {
    pub id: String,
    pub loc: usize,
    pub total: u64,
    /// per type: None = type not allowed (capacity 0); Some(c) = own capacity (UNLIMITED if not given)
    pub per_type: Vec<Option<u64>>,
}

impl RefDepot {
    /// number of vehicles of type t that may start here
    pub fn cap_for(&self, t: usize) -> u64 {
        match self.per_type[t] {
            None => 0,
            Some(c) => c.min(self.total),
        }
    }
}

#[derive(Clone, Copy, Debug, PartialEq, Eq)]
pub enum ActKind {
    Service,
    Maint,
}

#[derive(Clone, Debug)]
pub struct RefAct {
    pub id: String,
    pub kind: ActKind,
    pub vtype: Option<usize>,
    pub from: usize,
    pub to: usize,
    pub start: i64,
    pub end: i64,
    pub dist: u64,
    pub passengers: u64, // zero already counted as one
    pub seated: u64,
    pub type_limit: Option<u64>,
    pub seg_limit: Option<u64>,
    pub tracks: u64,
}

impl RefAct {
    /// applicable formation limit: the smaller of the limits that are given; slots: track count
    pub fn limit(&self) -> Option<u64> {
        match self.kind {
            ActKind::Maint => Some(self.tracks),
            ActKind::Service => match (self.type_limit, self.seg_limit) {
                (Some(a), Some(b)) => Some(a.min(b)),
                (Some(a), None) => Some(a),
                (None, Some(b)) => Some(b),
                (None, None) => None,
            },
        }
    }
}

#[derive(Clone, Debug, Default)]
pub struct RefCosts {
    pub staff: u64,
    pub service: u64,
    pub maintenance: u64,
    pub dead_head: u64,
    pub idle: u64,
}

#[derive(Clone, Debug)]
pub struct RefInstance {
    pub types: Vec<RefType>,
    pub locs: Vec<String>,
    pub depots: Vec<RefDepot>,
    pub depots_defaulted: bool,
    pub acts: Vec<RefAct>,
    pub act_by_id: BTreeMap<String, usize>,
    pub tt: Vec<Vec<u64>>,
    pub dd: Vec<Vec<u64>>,
    pub forbid_dh: bool,
    pub sh_min: u64,
    pub sh_dh: u64,
    pub max_dist: u64,
    pub has_slots: bool,
    pub costs: RefCosts,
    pub n_segments: u64,
}

fn div_ceil(a: u64, b: u64) -> u64 {
    (a + b - 1) / b
}

/// "2023-07-24T12:00:00", "2023-7-24T6:00", trailing Z tolerated -> seconds since 1970-01-01
pub fn parse_time(s: &str) -> Result<i64, String> {
    let t = s.replace('Z', "");
    let parts: Vec<&str> = t.split(|c| c == 'T' || c == '-' || c == ' ' || c == ':').collect();
    if parts.len() < 5 || parts.len() > 6 {
        return Err(format!("bad time '{}'", s));
    }
    let n: Result<Vec<i64>, _> = parts.iter().map(|p| p.parse::<i64>()).collect();
    let n = n.map_err(|_| format!("bad time '{}'", s))?;
    let (y, m, d, hh, mm) = (n[0], n[1], n[2], n[3], n[4]);
    let ss = if n.len() == 6 { n[5] } else { 0 };
    if !(1..=12).contains(&m) || !(1..=31).contains(&d) || hh > 24 || mm > 59 || ss > 59 {
        return Err(format!("bad time '{}'", s));
    }
    // days from civil (Howard Hinnant)
    let y2 = if m <= 2 { y - 1 } else { y };
    let era = if y2 >= 0 { y2 } else { y2 - 399 } / 400;
    let yoe = y2 - era * 400;
    let mp = (m + 9) % 12;
    let doy = (153 * mp + 2) / 5 + d - 1;
    let doe = yoe * 365 + yoe / 4 - yoe / 100 + doy;
    let days = era * 146097 + doe - 719468;
    Ok(days * 86400 + hh * 3600 + mm * 60 + ss)
}

pub fn fmt_time(t: i64) -> String {
    let days = t.div_euclid(86400);
    let secs = t.rem_euclid(86400);
    let z = days + 719468;
    let era = if z >= 0 { z } else { z - 146096 } / 146097;
    let doe = z - era * 146097;
    let yoe = (doe - doe / 1460 + doe / 36524 - doe / 146096) / 365;
    let y = yoe + era * 400;
    let doy = doe - (365 * yoe + yoe / 4 - yoe / 100);
    let mp = (5 * doy + 2) / 153;
    let d = doy - (153 * mp + 2) / 5 + 1;
    let m = if mp < 10 { mp + 3 } else { mp - 9 };
    let y = if m <= 2 { y + 1 } else { y };
    format!(
        "{:04}-{:02}-{:02}T{:02}:{:02}:{:02}",
        y,
        m,
        d,
        secs / 3600,
        (secs % 3600) / 60,
        secs % 60
    )
}

fn gu(v: &Value, k: &str) -> Result<u64, String> {
    v.get(k)
        .and_then(|x| x.as_u64())
        .ok_or_else(|| format!("missing/non-integer field '{}'", k))
}
fn gs<'a>(v: &'a Value, k: &str) -> Result<&'a str, String> {
    v.get(k)
        .and_then(|x| x.as_str())
        .ok_or_else(|| format!("missing/non-string field '{}'", k))
}
fn gopt_u(v: &Value, k: &str) -> Option<u64> {
    v.get(k).and_then(|x| x.as_u64())
}
fn garr<'a>(v: &'a Value, k: &str) -> Result<&'a Vec<Value>, String> {
    v.get(k)
        .and_then(|x| x.as_array())
        .ok_or_else(|| format!("missing/non-array field '{}'", k))
}

impl RefInstance {
    pub fn parse(inp: &Value) -> Result<RefInstance, String> {
        let mut types = vec![];
        let mut type_idx: BTreeMap<String, usize> = BTreeMap::new();
        for t in garr(inp, "vehicleTypes")? {
            let id = gs(t, "id")?.to_string();
            if type_idx.insert(id.clone(), types.len()).is_some() {
                return Err(format!("duplicate vehicle type id {}", id));
            }
            let capacity = gu(t, "capacity")?;
            let seats = gu(t, "seats")?;
            if capacity == 0 || seats == 0 {
                return Err("capacity/seats must be positive".into());
            }
            types.push(RefType {
                id,
                capacity,
                seats,
                limit: gopt_u(t, "maximalFormationCount"),
            });
        }
        let mut locs = vec![];
        let mut loc_idx: BTreeMap<String, usize> = BTreeMap::new();
        for l in garr(inp, "locations")? {
            let id = gs(l, "id")?.to_string();
            if loc_idx.insert(id.clone(), locs.len()).is_some() {
                return Err(format!("duplicate location id {}", id));
            }
            locs.push(id);
        }
        let nl = locs.len();
        // dead head matrix
        let dh = inp.get("deadHeadTrips").ok_or("missing deadHeadTrips")?;
        let indices = garr(dh, "indices")?;
        let durs = garr(dh, "durations")?;
        let dists = garr(dh, "distances")?;
        let mut tt = vec![vec![0u64; nl]; nl];
        let mut dd = vec![vec![0u64; nl]; nl];
        let mut seen = vec![false; nl];
        let mut idx_of = vec![];
        for i in indices {
            let name = i.as_str().ok_or("deadHeadTrips.indices must be strings")?;
            let li = *loc_idx
                .get(name)
                .ok_or_else(|| format!("unknown location {} in deadHeadTrips", name))?;
            seen[li] = true;
            idx_of.push(li);
        }
        if seen.iter().any(|s| !s) {
            return Err("every location must appear in deadHeadTrips.indices".into());
        }
        for (i, &li) in idx_of.iter().enumerate() {
            let rd = durs.get(i).and_then(|r| r.as_array()).ok_or("durations row")?;
            let rs = dists.get(i).and_then(|r| r.as_array()).ok_or("distances row")?;
            for (j, &lj) in idx_of.iter().enumerate() {
                tt[li][lj] = rd.get(j).and_then(|x| x.as_u64()).ok_or("durations cell")?;
                dd[li][lj] = rs.get(j).and_then(|x| x.as_u64()).ok_or("distances cell")?;
            }
        }
        // parameters
        let p = inp.get("parameters").ok_or("missing parameters")?;
        let forbid_dh = p
            .get("forbidDeadHeadTrips")
            .and_then(|x| x.as_bool())
            .unwrap_or(false);
        let sh = p.get("shunting").ok_or("missing shunting")?;
        let sh_min = gu(sh, "minimalDuration")?;
        let sh_dh = gu(sh, "deadHeadTripDuration")?;
        let max_dist = p
            .get("maintenance")
            .filter(|m| !m.is_null())
            .map(|m| gu(m, "maximalDistance"))
            .transpose()?
            .unwrap_or(0);
        let c = p.get("costs").ok_or("missing costs")?;
        let costs = RefCosts {
            staff: gu(c, "staff")?,
            service: gu(c, "serviceTrip")?,
            maintenance: gopt_u(c, "maintenance").unwrap_or(0),
            dead_head: gu(c, "deadHeadTrip")?,
            idle: gu(c, "idle")?,
        };
        // routes
        struct RSeg {
            from: usize,
            to: usize,
            dist: u64,
            dur: u64,
            limit: Option<u64>,
        }
        let mut routes: BTreeMap<String, (usize, BTreeMap<String, RSeg>)> = BTreeMap::new();
        for r in garr(inp, "routes")? {
            let id = gs(r, "id")?.to_string();
            let t = *type_idx
                .get(gs(r, "vehicleType")?)
                .ok_or("route: unknown vehicle type")?;
            let mut segs = BTreeMap::new();
            for s in garr(r, "segments")? {
                let sid = gs(s, "id")?.to_string();
                let from = *loc_idx.get(gs(s, "origin")?).ok_or("segment: unknown origin")?;
                let to = *loc_idx
                    .get(gs(s, "destination")?)
                    .ok_or("segment: unknown destination")?;
                let dur = gu(s, "duration")?;
                if dur == 0 {
                    return Err("segment duration must be positive".into());
                }
                segs.insert(
                    sid,
                    RSeg {
                        from,
                        to,
                        dist: gu(s, "distance")?,
                        dur,
                        limit: gopt_u(s, "maximalFormationCount"),
                    },
                );
            }
            if routes.insert(id.clone(), (t, segs)).is_some() {
                return Err(format!("duplicate route id {}", id));
            }
        }
        let mut acts = vec![];
        let mut act_by_id = BTreeMap::new();
        let mut n_segments = 0u64;
        for d in garr(inp, "departures")? {
            let (t, segs) = routes
                .get(gs(d, "route")?)
                .ok_or("departure: unknown route")?;
            for s in garr(d, "segments")? {
                let id = gs(s, "id")?.to_string();
                let rs = segs
                    .get(gs(s, "routeSegment")?)
                    .ok_or("departure segment: unknown route segment")?;
                let start = parse_time(gs(s, "departure")?)?;
                let passengers = gu(s, "passengers")?.max(1);
                let seated = gu(s, "seated")?;
                if act_by_id.insert(id.clone(), acts.len()).is_some() {
                    return Err(format!("duplicate activity id {}", id));
                }
                acts.push(RefAct {
                    id,
                    kind: ActKind::Service,
                    vtype: Some(*t),
                    from: rs.from,
                    to: rs.to,
                    start,
                    end: start + rs.dur as i64,
                    dist: rs.dist,
                    passengers,
                    seated,
                    type_limit: types[*t].limit,
                    seg_limit: rs.limit,
                    tracks: 0,
                });
                n_segments += 1;
            }
        }
        let mut has_slots = false;
        if let Some(ms) = inp.get("maintenanceSlots").and_then(|x| x.as_array()) {
            for m in ms {
                let id = gs(m, "id")?.to_string();
                let l = *loc_idx.get(gs(m, "location")?).ok_or("slot: unknown location")?;
                let start = parse_time(gs(m, "start")?)?;
                let end = parse_time(gs(m, "end")?)?;
                if end <= start {
                    return Err("slot duration must be positive".into());
                }
                let tracks = gu(m, "trackCount")?;
                if act_by_id.insert(id.clone(), acts.len()).is_some() {
                    return Err(format!("duplicate activity id {}", id));
                }
                acts.push(RefAct {
                    id,
                    kind: ActKind::Maint,
                    vtype: None,
                    from: l,
                    to: l,
                    start,
                    end,
                    dist: 0,
                    passengers: 0,
                    seated: 0,
                    type_limit: None,
                    seg_limit: None,
                    tracks,
                });
                has_slots = true;
            }
        }
        // depots
        let mut depots = vec![];
        let depots_defaulted;
        match inp.get("depots").and_then(|x| x.as_array()) {
            None => {
                depots_defaulted = true;
                for (i, l) in locs.iter().enumerate() {
                    depots.push(RefDepot {
                        id: format!("depot_{}", l),
                        loc: i,
                        total: UNLIMITED,
                        per_type: vec![Some(UNLIMITED); types.len()],
                    });
                }
            }
            Some(ds) => {
                depots_defaulted = false;
                for d in ds {
                    let id = gs(d, "id")?.to_string();
                    let loc = *loc_idx.get(gs(d, "location")?).ok_or("depot: unknown location")?;
                    let total = gu(d, "capacity")?;
                    let mut per_type = vec![None; types.len()];
                    for a in garr(d, "allowedTypes")? {
                        let t = *type_idx
                            .get(gs(a, "vehicleType")?)
                            .ok_or("depot: unknown vehicle type")?;
                        per_type[t] = Some(gopt_u(a, "capacity").unwrap_or(UNLIMITED));
                    }
                    if depots.iter().any(|x: &RefDepot| x.id == id) {
                        return Err(format!("duplicate depot id {}", id));
                    }
                    depots.push(RefDepot {
                        id,
                        loc,
                        total,
                        per_type,
                    });
                }
            }
        }
        // Conventions taken from the loader's documented (printed) behaviour: a dead-head duration
        // above the planning duration (whole days spanned by the activities) is replaced by it,
        // a dead-head distance above 1000 km by 1000 km.
        {
            let lo = acts.iter().map(|a| a.start).min();
            let hi = acts.iter().map(|a| a.end).max();
            if let (Some(lo), Some(hi)) = (lo, hi) {
                let planning = div_ceil((hi - lo) as u64, 86400) * 86400;
                for row in tt.iter_mut() {
                    for x in row.iter_mut() {
                        if *x > planning {
                            *x = planning;
                        }
                    }
                }
            }
            for row in dd.iter_mut() {
                for x in row.iter_mut() {
                    if *x > 1_000_000 {
                        *x = 1_000_000;
                    }
                }
            }
        }
        Ok(RefInstance {
            types,
            locs,
            depots,
            depots_defaulted,
            acts,
            act_by_id,
            tt,
            dd,
            forbid_dh,
            sh_min,
            sh_dh,
            max_dist,
            has_slots,
            costs,
            n_segments,
        })
    }

    pub fn depot_by_id(&self, id: &str) -> Option<usize> {
        self.depots.iter().position(|d| d.id == id)
    }

    pub fn loc_by_id(&self, id: &str) -> Option<usize> {
        self.locs.iter().position(|d| d == id)
    }

    pub fn type_by_id(&self, id: &str) -> Option<usize> {
        self.types.iter().position(|d| d.id == id)
    }

    /// turnaround needed between the end of `a` and the start of `b` (None: impossible)
    pub fn need(&self, a: &RefAct, b: &RefAct) -> Option<u64> {
        if a.to == b.from {
            Some(self.sh_min)
        } else if self.forbid_dh {
            None
        } else {
            Some(self.tt[a.to][b.from] + 2 * self.sh_dh)
        }
    }

    /// the documented timing rule between two activities
    pub fn connectable(&self, ai: usize, bi: usize) -> bool {
        let (a, b) = (&self.acts[ai], &self.acts[bi]);
        match self.need(a, b) {
            None => false,
            Some(n) => a.end + n as i64 <= b.start,
        }
    }

    pub fn required(&self, ai: usize) -> u64 {
        let a = &self.acts[ai];
        let t = &self.types[a.vtype.expect("service")];
        div_ceil(a.passengers, t.capacity).max(div_ceil(a.seated, t.seats))
    }

    /// number of vehicles the segment must be served by: min(required, limit)
    pub fn served(&self, ai: usize) -> u64 {
        let r = self.required(ai);
        match self.acts[ai].limit() {
            Some(l) => r.min(l),
            None => r,
        }
    }

    /// unserved (capacity shortfall + seat shortfall) of segment ai when served by k vehicles of its type
    pub fn shortfall(&self, ai: usize, k: u64) -> u64 {
        let a = &self.acts[ai];
        let t = &self.types[a.vtype.expect("service")];
        a.passengers.saturating_sub(k * t.capacity) + a.seated.saturating_sub(k * t.seats)
    }

    /// the instance's lower bound on unserved passengers
    pub fn unserved_lower_bound(&self) -> u64 {
        (0..self.acts.len())
            .filter(|&i| self.acts[i].kind == ActKind::Service)
            .map(|i| self.shortfall(i, self.served(i)))
            .sum()
    }

    pub fn service_acts(&self) -> impl Iterator<Item = usize> + '_ {
        (0..self.acts.len()).filter(move |&i| self.acts[i].kind == ActKind::Service)
    }
    pub fn maint_acts(&self) -> impl Iterator<Item = usize> + '_ {
        (0..self.acts.len()).filter(move |&i| self.acts[i].kind == ActKind::Maint)
    }

    /// planning horizon in seconds, rounded up to whole days (README: planning days)
    pub fn planning_secs(&self) -> u64 {
        let lo = self.acts.iter().map(|a| a.start).min();
        let hi = self.acts.iter().map(|a| a.end).max();
        match (lo, hi) {
            (Some(lo), Some(hi)) => div_ceil((hi - lo) as u64, 86400) * 86400,
            _ => 0,
        }
    }
}

// ---------------------------------------------------------------------------------------------
// schedules described as data
// ---------------------------------------------------------------------------------------------

#[derive(Clone, Copy, Debug, PartialEq, Eq, PartialOrd, Ord)]
pub enum DepotRef {
    Real(usize),
    Overflow,
}

#[derive(Clone, Debug)]
pub struct VehData {
    pub id: String,
    pub vtype: usize,
    pub start: DepotRef,
    pub end: DepotRef,
    pub acts: Vec<usize>,
}

#[derive(Clone, Debug, Default)]
pub struct SchedData {
    pub vehicles: Vec<VehData>,
    /// per type (index = type idx): cycles of vehicle ids
    pub cycles: Vec<Vec<Vec<String>>>,
    /// trip view: formation per activity
    pub formations: BTreeMap<usize, Vec<String>>,
}

#[derive(Clone, Debug, Default, PartialEq, Eq)]
pub struct RefObjective {
    pub unserved: u64,
    pub violation: i64,
    pub vehicles: u64,
    pub costs: u64,
    /// false when some vehicle touches the overflow depot: costs/violation are then only the
    /// finite part (a lower bound), see DESIGN section 3 convention 2
    pub exact: bool,
}

/// convention for legs to / from the overflow depot when an exact number is needed
#[derive(Clone, Copy, Debug)]
pub struct OverflowConvention {
    pub inf_distance: u64,
    pub leg_seconds: u64,
}

impl SchedData {
    pub fn vehicle(&self, id: &str) -> Option<&VehData> {
        self.vehicles.iter().find(|v| v.id == id)
    }
}

impl RefInstance {
    fn depot_loc(&self, d: DepotRef) -> Option<usize> {
        match d {
            DepotRef::Real(i) => Some(self.depots[i].loc),
            DepotRef::Overflow => None,
        }
    }

    /// (service distance, dead-head distance or None if infinite, visits maintenance)
    pub fn tour_distances(&self, v: &VehData) -> (u64, Option<u64>, bool) {
        let mut service = 0u64;
        let mut dh = Some(0u64);
        let mut visits = false;
        let mut cur = self.depot_loc(v.start);
        let mut first = true;
        for &ai in &v.acts {
            let a = &self.acts[ai];
            match cur {
                Some(l) => {
                    if let Some(x) = dh.as_mut() {
                        *x += self.dd[l][a.from];
                    }
                }
                None => {
                    if first {
                        dh = None;
                    }
                }
            }
            first = false;
            service += a.dist;
            if a.kind == ActKind::Maint {
                visits = true;
            }
            cur = Some(a.to);
        }
        match (cur, self.depot_loc(v.end)) {
            (Some(l), Some(e)) => {
                if let Some(x) = dh.as_mut() {
                    *x += self.dd[l][e];
                }
            }
            _ => dh = None,
        }
        (service, dh, visits)
    }

    /// maintenance counter of a tour as the statement defines it: total distance minus one
    /// allowance if a slot is visited. Infinite distance -> conv.inf_distance (if given).
    pub fn tour_counter(&self, v: &VehData, conv: Option<OverflowConvention>) -> Option<i64> {
        let (s, dh, visits) = self.tour_distances(v);
        let total = match dh {
            Some(d) => s + d,
            None => conv?.inf_distance,
        } as i64;
        Some(if visits { total - self.max_dist as i64 } else { total })
    }

    pub fn depot_distance(&self, a: DepotRef, b: DepotRef, conv: Option<OverflowConvention>) -> Option<i64> {
        match (self.depot_loc(a), self.depot_loc(b)) {
            (Some(x), Some(y)) => Some(self.dd[x][y] as i64),
            _ => conv.map(|c| c.inf_distance as i64),
        }
    }

    /// counter of one cycle given as vehicle ids: member counters + depot-to-depot transfers
    pub fn cycle_counter(
        &self,
        s: &SchedData,
        cycle: &[String],
        conv: Option<OverflowConvention>,
    ) -> Result<Option<i64>, String> {
        if cycle.is_empty() {
            return Ok(Some(0));
        }
        let mut total = 0i64;
        let mut finite = true;
        for (i, vid) in cycle.iter().enumerate() {
            let v = s
                .vehicle(vid)
                .ok_or_else(|| format!("cycle member {} is not a vehicle", vid))?;
            let w = s
                .vehicle(&cycle[(i + 1) % cycle.len()])
                .ok_or_else(|| format!("cycle member {} is not a vehicle", cycle[(i + 1) % cycle.len()]))?;
            match self.tour_counter(v, conv) {
                Some(c) => total += c,
                None => finite = false,
            }
            match self.depot_distance(v.end, w.start, conv) {
                Some(d) => total += d,
                None => finite = false,
            }
        }
        Ok(if finite { Some(total) } else { None })
    }

    /// costs of one itinerary; None for a leg to/from the overflow depot without convention
    pub fn tour_costs(&self, v: &VehData, conv: Option<OverflowConvention>) -> Option<u64> {
        let c = &self.costs;
        let mut total = 0u64;
        let mut prev: Option<&RefAct> = None;
        for &ai in &v.acts {
            let a = &self.acts[ai];
            let dur = (a.end - a.start) as u64;
            total += dur
                * match a.kind {
                    ActKind::Service => c.service,
                    ActKind::Maint => c.maintenance,
                };
            match prev {
                None => match self.depot_loc(v.start) {
                    Some(l) => total += self.tt[l][a.from] * c.dead_head,
                    None => total += conv?.leg_seconds * c.dead_head,
                },
                Some(p) => {
                    let travel = self.tt[p.to][a.from];
                    total += travel * c.dead_head;
                    let gap = (a.start - p.end).max(0) as u64;
                    total += gap.saturating_sub(travel) * c.idle;
                }
            }
            prev = Some(a);
        }
        if let Some(p) = prev {
            match self.depot_loc(v.end) {
                Some(l) => total += self.tt[p.to][l] * c.dead_head,
                None => total += conv?.leg_seconds * c.dead_head,
            }
        }
        Some(total)
    }

    /// independent evaluation of the four objective components
    pub fn evaluate(&self, s: &SchedData, conv: Option<OverflowConvention>) -> Result<RefObjective, String> {
        let mut exact = true;
        // unserved from the trip view
        let mut unserved = 0u64;
        for ai in self.service_acts() {
            let a = &self.acts[ai];
            let t = &self.types[a.vtype.unwrap()];
            let k = s.formations.get(&ai).map(|f| f.len()).unwrap_or(0) as u64;
            unserved += a.passengers.saturating_sub(k * t.capacity) + a.seated.saturating_sub(k * t.seats);
        }
        // costs
        let mut costs = self.n_segments * self.costs.staff;
        for v in &s.vehicles {
            match self.tour_costs(v, conv) {
                Some(c) => costs += c,
                None => {
                    exact = false;
                    // finite part: replace overflow legs by 0
                    let zero = OverflowConvention {
                        inf_distance: 0,
                        leg_seconds: 0,
                    };
                    costs += self.tour_costs(v, Some(zero)).unwrap();
                }
            }
        }
        // violation
        let mut violation = 0i64;
        for cycles in &s.cycles {
            for cyc in cycles {
                match self.cycle_counter(s, cyc, conv)? {
                    Some(c) => violation += c.max(0),
                    None => {
                        exact = false;
                        let zero = OverflowConvention {
                            inf_distance: 0,
                            leg_seconds: 0,
                        };
                        violation += self.cycle_counter(s, cyc, Some(zero))?.unwrap().max(0);
                    }
                }
            }
        }
        Ok(RefObjective {
            unserved,
            violation,
            vehicles: s.vehicles.len() as u64,
            costs,
            exact,
        })
    }
}
