//! Direct calls of the public Tour edit methods on tours taken from a reachable schedule,
//! compared with the executable reference semantics (C12) and with recomputed figures (C09).

use crate::refstate::*;
use crate::seams::{guarded, panic_signature};
use crate::sim_b::{parse_vehicle, Ctx};
use model::base_types::NodeIdx;
use serde_json::Value;
use solution::path::Path;
use solution::segment::Segment;
use solution::tour::Tour;
use solution::Schedule;

fn figures(cx: &mut Ctx, what: &str, tour: &Tour) {
    let nodes: Vec<NodeIdx> = tour.all_nodes_iter().collect();
    let f = recompute_tour(&cx.ad, &cx.inst, &nodes);
    let ovf = if f.dead_head.is_none() { "_overflow" } else { "" };
    let dh_ok = match (tour.dead_head_distance(), f.dead_head) {
        (model::base_types::Distance::Distance(d), Some(s)) => d == s,
        (model::base_types::Distance::Infinity, None) => true,
        _ => false,
    };
    if !dh_ok {
        cx.v("C09", &format!("C09.{}_dead_head_distance{}", what, ovf), format!("{}: dead-head distance cached {} vs recomputed {:?} for {:?}", what, tour.dead_head_distance(), f.dead_head, cx.names_of(&nodes)));
    }
    if tour.costs() != f.costs {
        cx.v("C09", &format!("C09.{}_costs{}", what, ovf), format!("{}: costs cached {} vs recomputed {} for {:?}", what, tour.costs(), f.costs, cx.names_of(&nodes)));
    }
    if tour.service_distance().in_meter().ok() != Some(f.service) {
        cx.v("C09", &format!("C09.{}_service_distance", what), format!("{}: service distance cached {} vs recomputed {}", what, tour.service_distance(), f.service));
    }
    if tour.useful_duration().in_sec().ok() != Some(f.useful) {
        cx.v("C09", &format!("C09.{}_useful_duration", what), format!("{}: useful duration cached {} vs recomputed {}", what, tour.useful_duration(), f.useful));
    }
    if tour.visits_maintenance() != f.visits {
        cx.v("C09", &format!("C09.{}_visits_maintenance", what), format!("{}: visits_maintenance cached {} vs recomputed {}", what, tour.visits_maintenance(), f.visits));
    }
}

pub fn tour_call(cx: &mut Ctx, s: &Schedule, before: &Snap, op: &Value) {
    let kind = op["op"].as_str().unwrap_or("").to_string();
    let v = match op["v"].as_str().and_then(parse_vehicle) {
        Some(v) => v,
        None => return,
    };
    let tour = match s.tour_of(v) {
        Ok(t) => t.clone(),
        Err(_) => return,
    };
    let is_dummy = before.dummies.contains_key(&v);
    let nd = |cx: &Ctx, k: &str| op[k].as_str().and_then(|n| cx.node(n));
    let p_nodes: Vec<NodeIdx> = op["nodes"].as_array().map(|a| a.iter().filter_map(|x| x.as_str().and_then(|n| cx.node(n))).collect()).unwrap_or_default();
    let (a, b) = (nd(cx, "a"), nd(cx, "b"));
    tour_call_core(cx, &kind, &tour, is_dummy, p_nodes, a, b);
}

/// one tour-edit comparison: `kind` in tour_insert | tour_conflict | tour_remove | tour_sub_path
pub fn tour_call_core(cx: &mut Ctx, kind: &str, tour: &Tour, is_dummy: bool, p_nodes: Vec<NodeIdx>, a: Option<NodeIdx>, b: Option<NodeIdx>) {
    let tour = tour.clone();
    let t_nodes: Vec<NodeIdx> = tour.all_nodes_iter().collect();
    // the property quantifies over valid tours; a dummy tour that lost its connecting slots is none
    if !is_path(&cx.ad, &cx.inst, &t_nodes) {
        cx.probe("tour_that_is_not_a_path_skipped");
        return;
    }
    // the path argument: explicit nodes, or the sub-tour between a and b
    let mut p_nodes = p_nodes;
    if p_nodes.is_empty() {
        if let (Some(a), Some(b)) = (a, b) {
            if let (Some(x), Some(y)) = (t_nodes.iter().position(|n| *n == a), t_nodes.iter().position(|n| *n == b)) {
                if x <= y {
                    p_nodes = t_nodes[x..=y].to_vec();
                }
            }
        }
    }
    match kind {
        "tour_insert" | "tour_conflict" => {
            if p_nodes.is_empty() {
                return;
            }
            let bad_depot = p_nodes.iter().enumerate().any(|(i, n)| {
                let node = cx.ad.nw.node(*n);
                (node.is_start_depot() && i != 0) || (node.is_end_depot() && i != p_nodes.len() - 1)
            });
            if bad_depot || (is_dummy && p_nodes.iter().any(|n| !cx.ad.nw.node(*n).is_service())) {
                return;
            }
            let path = match Path::new(p_nodes.clone(), cx.ad.nw.clone()) {
                Ok(Some(p)) => p,
                _ => return,
            };
            let (exp_tour, exp_dropped) = ref_insert(&cx.ad, &cx.inst, &t_nodes, is_dummy, &p_nodes);
            if kind == "tour_insert" {
                match guarded(|| tour.insert_path(path)) {
                    Err(p) => cx.v("C12", &format!("C12.tour_insert_panic:{}", panic_signature(&p)), format!("insert_path({:?}) into {:?} panicked: {}", cx.names_of(&p_nodes), cx.names_of(&t_nodes), p)),
                    Ok((nt, removed)) => {
                        let got: Vec<NodeIdx> = nt.all_nodes_iter().collect();
                        if got != exp_tour {
                            cx.v(
                                "C12",
                                if exp_dropped.is_empty() { "C12.insert_no_conflict" } else { "C12.insert_conflict" },
                                format!("Tour::insert_path {:?} into {:?}: got {:?}, reference {:?}", cx.names_of(&p_nodes), cx.names_of(&t_nodes), cx.names_of(&got), cx.names_of(&exp_tour)),
                            );
                        } else {
                            figures(cx, "insert_path", &nt);
                        }
                        let rem: Vec<NodeIdx> = removed.map(|p| p.iter().collect()).unwrap_or_default();
                        if non_depots(&cx.ad, &rem) != non_depots(&cx.ad, &exp_dropped) {
                            cx.v("C12", "C12.insert_reported_dropped", format!("Tour::insert_path {:?} into {:?}: reported {:?}, reference {:?}", cx.names_of(&p_nodes), cx.names_of(&t_nodes), cx.names_of(&rem), cx.names_of(&exp_dropped)));
                        }
                        cx.probe(if exp_dropped.is_empty() { "tour_insert_without_conflict" } else { "tour_insert_with_conflict" });
                    }
                }
            } else {
                let seg = Segment::new(p_nodes[0], *p_nodes.last().unwrap());
                match guarded(|| tour.conflict(seg)) {
                    Err(p) => cx.v("C12", &format!("C12.conflict_panic:{}", panic_signature(&p)), format!("conflict panicked: {}", p)),
                    Ok(c) => {
                        let got: Vec<NodeIdx> = c.map(|p| p.iter().collect()).unwrap_or_default();
                        // conflict() looks at the end points only; for a dummy tour the path's depots are dropped first
                        let first_last_depot = is_dummy && (cx.ad.nw.node(p_nodes[0]).is_depot() || cx.ad.nw.node(*p_nodes.last().unwrap()).is_depot());
                        if !first_last_depot && non_depots(&cx.ad, &got) != non_depots(&cx.ad, &exp_dropped) {
                            cx.v("C12", "C12.conflict", format!("conflict of {:?} with {:?}: got {:?}, reference {:?}", cx.names_of(&p_nodes), cx.names_of(&t_nodes), cx.names_of(&got), cx.names_of(&exp_dropped)));
                        }
                    }
                }
            }
        }
        "tour_remove" => {
            let (a, b) = match (a, b) {
                (Some(a), Some(b)) => (a, b),
                _ => return,
            };
            let expect = ref_remove(&cx.ad, &cx.inst, &t_nodes, is_dummy, a, b);
            let removable = guarded(|| tour.check_removable(Segment::new(a, b)));
            match guarded(|| tour.remove(Segment::new(a, b))) {
                Err(p) => cx.v("C12", &format!("C12.tour_remove_panic:{}", panic_signature(&p)), format!("remove panicked: {}", p)),
                Ok(Err(e)) => {
                    if let RefRemove::Ok(..) = expect {
                        cx.v("C12", "C12.remove_refused_valid", format!("Tour::remove [{}..{}] from {:?} refused: {}", cx.name(a), cx.name(b), cx.names_of(&t_nodes), e));
                    }
                    if let Ok(Ok(())) = removable {
                        cx.v("C12", "C12.check_removable_disagrees", "check_removable accepts what remove refuses".into());
                    }
                }
                Ok(Ok((rest, path))) => {
                    if let Ok(Err(_)) = removable {
                        cx.v("C12", "C12.check_removable_disagrees", "check_removable refuses what remove accepts".into());
                    }
                    match expect {
                        RefRemove::Refuse(why) => cx.v("C12", &format!("C12.remove_accepted_invalid:{}", why.replace(' ', "_")), format!("Tour::remove [{}..{}] from {:?} must be refused ({})", cx.name(a), cx.name(b), cx.names_of(&t_nodes), why)),
                        RefRemove::Ok(erest, eremoved) => {
                            let got_rest: Option<Vec<NodeIdx>> = rest.as_ref().map(|t| t.all_nodes_iter().collect());
                            let got_removed: Vec<NodeIdx> = path.iter().collect();
                            if got_rest != erest || got_removed != eremoved {
                                cx.v("C12", "C12.remove_result", format!("Tour::remove [{}..{}] from {:?}: got {:?} / {:?}, reference {:?} / {:?}", cx.name(a), cx.name(b), cx.names_of(&t_nodes), got_rest.map(|x| cx.names_of(&x)), cx.names_of(&got_removed), erest.map(|x| cx.names_of(&x)), cx.names_of(&eremoved)));
                            } else if let Some(t) = rest {
                                figures(cx, "remove", &t);
                            }
                        }
                    }
                }
            }
        }
        "tour_sub_path" => {
            let (a, b) = match (a, b) {
                (Some(a), Some(b)) => (a, b),
                _ => return,
            };
            if cx.ad.nw.node(a).is_depot() || cx.ad.nw.node(b).is_depot() {
                return;
            }
            let (pa, pb) = match (t_nodes.iter().position(|n| *n == a), t_nodes.iter().position(|n| *n == b)) {
                (Some(x), Some(y)) => (x, y),
                _ => return,
            };
            match guarded(|| tour.sub_path(Segment::new(a, b))) {
                Err(p) => cx.v("C12", &format!("C12.sub_path_panic:{}", panic_signature(&p)), format!("sub_path panicked: {}", p)),
                Ok(Err(e)) => {
                    if pa <= pb {
                        cx.v("C12", "C12.sub_path_refused", format!("sub_path [{}..{}] of {:?} refused: {}", cx.name(a), cx.name(b), cx.names_of(&t_nodes), e));
                    }
                }
                Ok(Ok(p)) => {
                    let got: Vec<NodeIdx> = p.iter().collect();
                    if pa > pb {
                        cx.v("C12", "C12.sub_path_accepted_reversed", "sub_path accepted a reversed segment".into());
                    } else if got != t_nodes[pa..=pb] {
                        cx.v("C12", "C12.sub_path_result", format!("sub_path [{}..{}] of {:?}: got {:?}", cx.name(a), cx.name(b), cx.names_of(&t_nodes), cx.names_of(&got)));
                    }
                    if pa < pb {
                        if let (Some(&x), Some(&y)) = (cx.ad.node_to_act.get(&t_nodes[pa]), cx.ad.node_to_act.get(&t_nodes[pa + 1])) {
                            if cx.inst.acts[x].end == cx.inst.acts[y].start {
                                cx.probe("sub_path_over_tie");
                            }
                        }
                    }
                }
            }
        }
        _ => {}
    }
}

/// C12, small scope exhaustively: on the (small) network of this run, ALL valid tours over its
/// activities (per type, with every start/end depot pair incl. the overflow depot, and as dummy
/// tours), ALL valid paths of up to 3 activities (with/without leading and trailing depot) and
/// ALL segments of each tour are pushed through insert_path / conflict / remove / check_removable /
/// sub_path and compared with the reference semantics. Returns the number of comparisons.
pub fn run_exhaust(cx: &mut Ctx) -> u64 {
    let nw = cx.ad.nw.clone();
    let mut comparisons = 0u64;
    let starts: Vec<NodeIdx> = nw.start_depot_nodes().collect();
    let ends: Vec<NodeIdx> = nw.end_depot_nodes().collect();
    for t in 0..cx.inst.types.len() {
        let vt = cx.ad.ref_to_type[t];
        let mut acts: Vec<NodeIdx> = cx
            .ad
            .node_to_act
            .iter()
            .filter(|(_, &a)| cx.inst.acts[a].kind == crate::refmodel::ActKind::Maint || cx.inst.acts[a].vtype == Some(t))
            .map(|(n, _)| *n)
            .collect();
        acts.sort_by_key(|n| (cx.inst.acts[cx.ad.node_to_act[n]].start, cx.inst.acts[cx.ad.node_to_act[n]].end));
        if acts.is_empty() || acts.len() > 7 {
            continue;
        }
        // all chains (subsets in time order whose consecutive members are connectable)
        let mut chains: Vec<Vec<NodeIdx>> = vec![];
        for mask in 1u32..(1 << acts.len()) {
            let c: Vec<NodeIdx> = (0..acts.len()).filter(|i| mask & (1 << i) != 0).map(|i| acts[i]).collect();
            if c.windows(2).all(|w| reach(&cx.ad, &cx.inst, w[0], w[1])) {
                chains.push(c);
            }
        }
        // tours: every chain with two depot pairs (first real pair, overflow) + as dummy (service trips only)
        let mut tours: Vec<(Tour, bool)> = vec![];
        let depot_pairs: Vec<(NodeIdx, NodeIdx)> = {
            let mut v = vec![];
            if let (Some(&s0), Some(&e0)) = (starts.first(), ends.last()) {
                v.push((s0, e0));
            }
            if starts.len() >= 2 {
                v.push((*starts.last().unwrap(), ends[0]));
            }
            v
        };
        for c in &chains {
            for (sd, ed) in &depot_pairs {
                let mut nodes = vec![*sd];
                nodes.extend_from_slice(c);
                nodes.push(*ed);
                if let Ok(Ok((s2, v))) = guarded(|| Schedule::empty(nw.clone()).spawn_vehicle_for_path(vt, nodes.clone())) {
                    if let Ok(tr) = s2.tour_of(v) {
                        tours.push((tr.clone(), false));
                    }
                    if c.iter().all(|n| nw.node(*n).is_service()) && sd == &depot_pairs[0].0 {
                        if let Ok(Ok(s3)) = guarded(|| s2.replace_vehicle_by_dummy(v)) {
                            if let Some(d) = s3.dummy_iter().next() {
                                if let Ok(tr) = s3.tour_of(d) {
                                    tours.push((tr.clone(), true));
                                }
                            }
                        }
                    }
                }
            }
        }
        // paths: chains of <= 3 activities, plain / with leading start depot / with trailing end depot / both
        let mut paths: Vec<Vec<NodeIdx>> = vec![];
        for c in chains.iter().filter(|c| c.len() <= 3) {
            paths.push(c.clone());
            if let (Some(&sd), Some(&ed)) = (starts.first(), ends.first()) {
                let mut p1 = vec![sd];
                p1.extend_from_slice(c);
                paths.push(p1.clone());
                let mut p2 = c.clone();
                p2.push(ed);
                paths.push(p2);
                p1.push(ed);
                paths.push(p1);
            }
        }
        for (tour, is_dummy) in &tours {
            let t_nodes: Vec<NodeIdx> = tour.all_nodes_iter().collect();
            for p in &paths {
                tour_call_core(cx, "tour_insert", tour, *is_dummy, p.clone(), None, None);
                tour_call_core(cx, "tour_conflict", tour, *is_dummy, p.clone(), None, None);
                comparisons += 2;
            }
            for i in 0..t_nodes.len() {
                for j in i..t_nodes.len() {
                    tour_call_core(cx, "tour_remove", tour, *is_dummy, vec![], Some(t_nodes[i]), Some(t_nodes[j]));
                    tour_call_core(cx, "tour_sub_path", tour, *is_dummy, vec![], Some(t_nodes[i]), Some(t_nodes[j]));
                    comparisons += 2;
                }
            }
            if !cx.out.is_empty() {
                return comparisons;
            }
        }
        *cx.probes.entry("exhaust_tours".into()).or_insert(0) += tours.len() as u64;
        *cx.probes.entry("exhaust_paths".into()).or_insert(0) += paths.len() as u64;
    }
    comparisons
}
