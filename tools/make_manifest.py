#!/usr/bin/env python3
"""Generates /verif/MANIFEST.json from the table below (kept in one place so that it stays valid)."""
import json, subprocess, sys

CLAIMED = {
 # id: (engine, technique, level text, level note, design ref)
 "C01": ("SIM-A", "deterministic pipeline simulation (seeded instances x hash seeds x worker pools) + REF itinerary oracle",
         "Sampled exploration: thousands of seeded valid instances are solved by the real server::solve_instance and internal::run inside the simulator (owned hash seeds, per-run rayon pool) and every returned itinerary is re-checked by an independent reference model of the timing rule. Right level because the property quantifies over inputs and over the solve's own nondeterminism; there is no fault to enumerate.",
         "REF's reading of the timing rule (DESIGN 3); instances <= 18 departure segments, <= 3 types, <= 5 locations, <= 3 days; sampling only", "5 C01"),
 "C02": ("SIM-A", "deterministic pipeline simulation + REF limit oracle over all four limit configurations",
         "Sampled exploration over seeded instances with limits on type only / segment only / both / neither and depots absent/ample/scarce/empty/zero; every segment, slot and (depot,type) pair of each returned schedule is recounted from the JSON.",
         "REF limit = min of the limits given; default depots are unlimited; overflow depot exempt", "5 C02"),
 "C03": ("SIM-A", "deterministic pipeline simulation + REF completeness / two-view agreement oracle",
         "Sampled exploration: both views of every returned JSON are cross-checked against each other and against the input (ids, places, times, depot loads, dead-head trips inside their gaps).",
         "ids of vehicles and dead-head trips, list orders and the info block are not compared", "5 C03"),
 "C04": ("SIM-A", "deterministic pipeline simulation + independent objective evaluator, also at every stage snapshot (hook H2)",
         "Sampled exploration: the four reported components are recomputed from the schedule part of the same JSON by REF, and the cached values of every stage snapshot are recomputed too, so a stale delta is attributed to the stage that introduced it.",
         "exact comparison of costs/violation needs no vehicle at the overflow depot in the JSON oracle (lower bound otherwise); stage snapshots use the repo's public INF_DISTANCE / planning_days constants", "5 C04"),
 "C05": ("SIM-A", "deterministic pipeline simulation + cycle partition / successor-depot oracle",
         "Sampled exploration over returned vehicleCycles and start/end depots.", "empty cycles tolerated", "5 C05"),
 "C06": ("SIM-A + watchdog", "deterministic pipeline simulation in two build profiles with a CPU-time watchdog (bounded liveness) and process isolation",
         "Sampled bounded-liveness check: every run must return JSON without panic/abort within a CPU budget three orders of magnitude above typical, in the release build and with overflow checks + debug assertions; generator biased to the regions the property names.",
         "'forever' is approximated by 10 s (quick) / 30 s (thorough) CPU, re-run once alone with twice the budget; valid instance = documented format as generated (DESIGN 3)", "5 C06"),
 "C07": ("SIM-A", "deterministic pipeline simulation + REF lower bound per segment and stage history",
         "Sampled exploration: unservedPassengers equals REF's lower bound, each formation has served(seg) vehicles, and the unserved value never rises from one stage snapshot to the next.",
         "REF required/served as in the statement", "5 C07"),
 "C08": ("SIM-A + H1", "deterministic pipeline simulation with recorded local-search trajectory (hook H1) + fixpoint re-run",
         "Invariant over a recorded history: every accepted step is strictly lexicographically below its predecessor, the recorded vector is the four getters in the documented order, the result is not worse than the start, and a second search on the result accepts nothing.",
         "whether the getters are truthful is C09/C11/C04's business", "5 C08"),
 "C16": ("SIM-A + H2", "deterministic pipeline simulation with stage snapshots (hook H2), relations between stages and the returned JSON",
         "History check over one solve call: LS result = last accepted step; final activities/start depots = LS result; cycles of final schedule and JSON = optimiser's cycles; end depots follow them; JSON = serialisation of the final schedule.",
         "cycles compared as sets of cyclic sequences; the optimiser's cycles are read from the hook after the per-type loop, so a type for which the transition search is never called is not noticed (DESIGN 8, round 9)", "5 C16"),
 "C17": ("SIM-A stage 0", "seeded instance generation on tie-rich grids + REF network oracle over all ordered node pairs (weak fit: pure function of input, see DESIGN 5.2)",
         "Sampled differential check of the loaded Network against REF: node attributes, depots, overflow capacity, can_reach on all ordered pairs, successors/predecessors as sets. No schedule, clock or fault exists for this property; the simulator contributes seeded generation, owned hash seeds, replay and minimisation only.",
         "pure function of the input: this is reference-model testing inside the simulator's harness, said plainly in DESIGN 5.2", "5 C17 / 5.2"),
}

def main():
    commits = subprocess.run(["git", "-C", "/repo", "log", "--format=%H %s"], capture_output=True, text=True).stdout.splitlines()
    hook_commits = [c.split()[0] for c in commits if " verif hooks" in c or c.split(" ",1)[1].startswith("verif hook")]
    props = [json.loads(l) for l in open("/verif/properties.jsonl")]
    extra = {}
    try:
        extra = json.load(open("/verif/tools/manifest_extra.json"))
    except Exception:
        pass
    claimed = dict(CLAIMED)
    for k, v in extra.get("claimed", {}).items():
        claimed[k] = tuple(v)
    checks = []
    for p in props:
        pid = p["id"]
        if pid not in claimed:
            continue
        eng, tech, text, note, ref = claimed[pid]
        checks.append({
            "property_id": pid,
            "quick_cmd": f"./check {pid} quick",
            "thorough_cmd": f"./check {pid} thorough",
            "evidence_file": f"/verif/evidence/{pid}.json",
            "replay_cmd_template": "./check replay {path}",
            "engine": eng,
            "level_claimed": {"category": "exploration", "text": text, "design_ref": "DESIGN.md section " + ref},
            "level_note": note,
            "technique": tech,
        })
    na = []
    for p in props:
        if p["id"] not in claimed:
            na.append({"property_id": p["id"], "reason": extra.get("not_applicable", {}).get(p["id"], "check not built yet in this session; see DESIGN.md section 8")})
    m = {
        "version": 1,
        "setup_cmd": "./check build",
        "hooks": {
            "guard": "--cfg rssched_verif",
            "enable": "RUSTFLAGS=\"--cfg rssched_verif\" cargo build (done by ./check for the harness crate, which depends on the /repo crates by path)",
            "baseline_off_cmd": "cd /repo && cargo test --workspace --no-fail-fast --offline",
            "source_commits": hook_commits,
            "add_only": True,
        },
        "engines": [
            {"name": "SIM-A", "path": "/verif/harness/src/sim_a.rs", "serves_properties": [c["property_id"] for c in checks if c["engine"].startswith("SIM-A")], "kind_free_text": "pipeline simulation: real solve_instance / internal::run under owned hash seeds, per-run rayon pool, CPU watchdog, stage and trajectory recorders"},
            {"name": "SIM-B", "path": "/verif/harness/src/sim_b.rs", "serves_properties": [c["property_id"] for c in checks if c["engine"].startswith("SIM-B")], "kind_free_text": "model-based operation-history simulation of Schedule/Tour/Transition against a reference state"},
            {"name": "SIM-C", "path": "/verif/harness/src/sim_c.rs", "serves_properties": [c["property_id"] for c in checks if c["engine"].startswith("SIM-C")], "kind_free_text": "service simulation: real axum Router + hyper HTTP/1 over in-memory pipes, seeded executor, fault injection"},
        ],
        "checks": checks,
        "notes": "All checks: exit 0 held / 1 violation (VIOLATION line with replay file) / 2 harness error. VERIF_SEED selects the batch (default 1). Known findings: /verif/known_findings.txt.",
        "not_applicable": na,
    }
    json.dump(m, open("/verif/MANIFEST.json", "w"), indent=1)
    print("claimed", [c["property_id"] for c in checks], "not claimed", [n["property_id"] for n in na])

main()
