//! C15: operation sequences on `Transition` against a reference `Vec<Vec<VehicleIdx>>`.

use crate::refmodel::*;
use crate::seams::{guarded, panic_signature};
use crate::sim_b::{parse_vehicle, Ctx};
use crate::rng::Rng;
use im::HashMap as ImHashMap;
use model::base_types::{NodeIdx, VehicleIdx, VehicleTypeIdx};
use serde_json::{json, Value};
use solution::tour::Tour;
use solution::transition::Transition;
use solution::Schedule;
use std::collections::{BTreeMap, BTreeSet};

type Model = Vec<Vec<VehicleIdx>>;

fn cycles_of(t: &Transition) -> Model {
    t.cycles_iter().map(|c| c.iter().collect()).collect()
}

fn type_by_name(cx: &Ctx, s: &str) -> Option<VehicleTypeIdx> {
    cx.inst.type_by_id(s).map(|r| cx.ad.ref_to_type[r])
}

fn three_opt_model(c: &[VehicleIdx], i: usize, j: usize, k: usize) -> Vec<VehicleIdx> {
    let mut n = Vec::with_capacity(c.len());
    n.extend_from_slice(&c[..=i]);
    n.extend_from_slice(&c[j + 1..=k]);
    n.extend_from_slice(&c[i + 1..=j]);
    n.extend_from_slice(&c[k + 1..]);
    n
}

/// script of (move | three_opt) edits per type, for `set_next_day_transitions`
pub fn gen_script(cx: &Ctx, rng: &mut Rng, s: &Schedule, max: usize) -> Vec<Value> {
    let mut script = vec![];
    let n = rng.range(0, max as i64) as usize;
    let mut models: BTreeMap<VehicleTypeIdx, Model> = cx.ad.ref_to_type.iter().map(|&vt| (vt, cycles_of(s.next_day_transition_of(vt)))).collect();
    for _ in 0..n {
        let vt = *rng.pick(&cx.ad.ref_to_type);
        let m = models.get_mut(&vt).unwrap();
        let members: Vec<VehicleIdx> = m.iter().flatten().copied().collect();
        if members.is_empty() {
            continue;
        }
        let tname = cx.inst.types[cx.ad.type_to_ref[&vt]].id.clone();
        let big: Vec<usize> = (0..m.len()).filter(|&i| m[i].len() >= 3).collect();
        if !big.is_empty() && rng.chance(1, 3) {
            let c = *rng.pick(&big);
            let len = m[c].len();
            let i = rng.usize(len - 2);
            let j = i + 1 + rng.usize(len - i - 2);
            let k = j + 1 + rng.usize(len - j - 1);
            m[c] = three_opt_model(&m[c], i, j, k);
            script.push(json!({"type": tname, "t": "three_opt", "cycle": c, "i": i, "j": j, "k": k}));
        } else {
            let v = *rng.pick(&members);
            let c = rng.usize(m.len());
            for cyc in m.iter_mut() {
                cyc.retain(|x| *x != v);
            }
            m[c].push(v);
            script.push(json!({"type": tname, "t": "move", "v": v.to_string(), "cycle": c}));
        }
    }
    script
}

/// applies the script through the real API; None if some step does not apply to the state
pub fn build_transitions(cx: &Ctx, s: &Schedule, script: &[Value]) -> Option<(ImHashMap<VehicleTypeIdx, Transition>, BTreeMap<VehicleTypeIdx, Model>)> {
    let tours = s.get_tours().clone();
    let mut m: BTreeMap<VehicleTypeIdx, Transition> = cx.ad.ref_to_type.iter().map(|&vt| (vt, s.next_day_transition_of(vt).clone())).collect();
    for st in script {
        let vt = st["type"].as_str().and_then(|t| type_by_name(cx, t))?;
        let t = m.get(&vt)?.clone();
        let cyc = cycles_of(&t);
        match st["t"].as_str()? {
            "move" => {
                let v = st["v"].as_str().and_then(parse_vehicle)?;
                let c = st["cycle"].as_u64()? as usize;
                if c >= cyc.len() || !cyc.iter().flatten().any(|x| *x == v) {
                    return None;
                }
                m.insert(vt, t.move_vehicle(v, c, &tours, &cx.ad.nw));
            }
            "three_opt" => {
                let c = st["cycle"].as_u64()? as usize;
                let (i, j, k) = (st["i"].as_u64()? as usize, st["j"].as_u64()? as usize, st["k"].as_u64()? as usize);
                if c >= cyc.len() || !(i < j && j < k && k < cyc[c].len()) {
                    return None;
                }
                let nc = t.get_cycle(c).three_opt(i, j, k, &tours, &cx.ad.nw);
                m.insert(vt, t.replace_cycle(c, nc));
            }
            _ => return None,
        }
    }
    let cycles: BTreeMap<VehicleTypeIdx, Model> = m.iter().map(|(vt, t)| (*vt, cycles_of(t))).collect();
    let mut im = ImHashMap::new();
    for (vt, t) in m {
        im.insert(vt, t);
    }
    Some((im, cycles))
}

fn veh_data(cx: &Ctx, v: VehicleIdx, vt: VehicleTypeIdx, tour: &Tour) -> Option<VehData> {
    let nodes: Vec<NodeIdx> = tour.all_nodes_iter().collect();
    if nodes.len() < 3 {
        return None;
    }
    Some(VehData {
        id: v.to_string(),
        vtype: cx.ad.type_to_ref[&vt],
        start: cx.ad.depot_ref_of_node(nodes[0])?,
        end: cx.ad.depot_ref_of_node(*nodes.last().unwrap())?,
        acts: nodes[1..nodes.len() - 1].iter().filter_map(|n| cx.ad.node_to_act.get(n).copied()).collect(),
    })
}

fn check_transition(cx: &mut Ctx, what: &str, t: &Transition, model: &Model, exact: bool, vt: VehicleTypeIdx, tours: &ImHashMap<VehicleIdx, Tour>) {
    let got = cycles_of(t);
    // partition
    let mut all: Vec<VehicleIdx> = got.iter().flatten().copied().collect();
    let n = all.len();
    all.sort();
    all.dedup();
    let mut want: Vec<VehicleIdx> = model.iter().flatten().copied().collect();
    want.sort();
    if all.len() != n || all != want {
        cx.v("C15", &format!("C15.partition_after_{}", what), format!("after {}: cycles {:?} do not contain each of {:?} exactly once", what, got, want));
        return;
    }
    if exact && got != *model {
        cx.v("C15", &format!("C15.cycles_after_{}", what), format!("after {}: cycles {:?}, reference {:?}", what, got, model));
    }
    if t.number_of_cycles() != got.len() {
        cx.v("C15", "C15.number_of_cycles", format!("number_of_cycles {} vs {} listed", t.number_of_cycles(), got.len()));
    }
    // successor consistency exercises the vehicle -> cycle lookup
    for c in &got {
        for i in 0..c.len() {
            match guarded(|| t.get_successor_of(c[i])) {
                Ok(x) if x == c[(i + 1) % c.len()] => {}
                Ok(x) => cx.v("C15", &format!("C15.lookup_after_{}", what), format!("after {}: successor of {} is {} but the cycles say {}", what, c[i], x, c[(i + 1) % c.len()])),
                Err(p) => cx.v("C15", &format!("C15.lookup_after_{}", what), format!("after {}: get_successor_of({}) panicked: {}", what, c[i], p)),
            }
        }
    }
    // counters
    let mut sd = SchedData::default();
    for v in &want {
        if let Some(d) = tours.get(v).and_then(|tr| veh_data(cx, *v, vt, tr)) {
            sd.vehicles.push(d);
        }
    }
    let (mut tv, mut tc) = (0i64, 0i64);
    for (ci, c) in got.iter().enumerate() {
        let ids: Vec<String> = c.iter().map(|v| v.to_string()).collect();
        if let Ok(Some(x)) = cx.inst.cycle_counter(&sd, &ids, Some(cx.ad.conv)) {
            tv += x.max(0);
            tc += x;
            let cached = t.get_cycle(ci).maintenance_counter();
            if cached != x {
                cx.v("C15", &format!("C15.cycle_counter_after_{}", what), format!("after {}: cycle {:?} caches counter {} but recomputation gives {}", what, ids, cached, x));
            }
        }
    }
    if t.maintenance_violation() != tv || t.maintenance_counter() != tc {
        cx.v("C15", &format!("C15.totals_after_{}", what), format!("after {}: totals cached (violation {}, counter {}) vs recomputed ({}, {})", what, t.maintenance_violation(), t.maintenance_counter(), tv, tc));
    }
    // secondary probe: the repo's own consistency check
    let members: ImHashMap<VehicleIdx, Tour> = want.iter().filter_map(|v| tours.get(v).map(|t| (*v, t.clone()))).collect();
    if guarded(|| t.verify_consistency(&members, &cx.ad.nw)).is_err() {
        cx.probe("verify_consistency_panicked");
    }
}

pub fn run_trans(cx: &mut Ctx, s: &Schedule, case: &Value) -> bool {
    let nw = cx.ad.nw.clone();
    let mut tours = s.get_tours().clone();
    // the type with most vehicles
    let vt = match cx.ad.ref_to_type.iter().copied().max_by_key(|vt| s.vehicles_iter(*vt).count()) {
        Some(vt) => vt,
        None => return false,
    };
    let all_members: Vec<VehicleIdx> = s.vehicles_iter(vt).collect();
    if all_members.is_empty() {
        return false;
    }
    let mut rng = Rng::new(case["ops_seed"].as_u64().unwrap_or(0));
    let given: Option<Vec<Value>> = case["ops"].as_array().cloned();
    let n_ops = given.as_ref().map(|g| g.len()).unwrap_or(case["n_ops"].as_u64().unwrap_or(10) as usize);
    let subset = case["trans_subset"].as_bool().unwrap_or_else(|| rng.chance(1, 2));
    let (mut t, mut outside): (Transition, Vec<VehicleIdx>) = if subset && all_members.len() >= 2 {
        let k = (all_members.len() + 1) / 2;
        (Transition::new_fast(&all_members[..k], &tours, &nw), all_members[k..].to_vec())
    } else {
        (s.next_day_transition_of(vt).clone(), vec![])
    };
    let mut model: Model = cycles_of(&t);
    check_transition(cx, "create", &t, &model, true, vt, &tours);
    let empty: ImHashMap<VehicleIdx, &Tour> = ImHashMap::new();
    let starts: Vec<NodeIdx> = nw.start_depot_nodes().collect();
    let ends: Vec<NodeIdx> = nw.end_depot_nodes().collect();
    let mut kinds = BTreeSet::new();
    let mut done = vec![];
    for step in 0..n_ops {
        let members: Vec<VehicleIdx> = model.iter().flatten().copied().collect();
        let op: Value = match &given {
            Some(g) => g[step].clone(),
            None => {
                let mut w = vec![
                    ("update", if members.is_empty() { 0 } else { 10 }),
                    ("update_pair", if members.len() < 2 { 0 } else { 10 }),
                    ("add_own", if outside.is_empty() { 0 } else { 12 }),
                    ("remove", if members.is_empty() { 0 } else { 12 }),
                    ("add_end", if outside.is_empty() || model.is_empty() { 0 } else { 14 }),
                    ("move", if members.is_empty() { 0 } else { 16 }),
                    ("three_opt", if model.iter().any(|c| c.len() >= 3) { 10 } else { 0 }),
                    ("new_fast", if members.is_empty() { 0 } else { 2 }),
                ];
                if w.iter().all(|x| x.1 == 0) {
                    w[1].1 = 1;
                }
                let kind = w[rng.weighted(&w.iter().map(|x| x.1).collect::<Vec<_>>())].0;
                match kind {
                    "update" => {
                        let v = *rng.pick(&members);
                        if rng.chance(1, 2) {
                            json!({"t": "update", "v": v.to_string(), "start": cx.name(*rng.pick(&starts))})
                        } else {
                            json!({"t": "update", "v": v.to_string(), "end": cx.name(*rng.pick(&ends))})
                        }
                    }
                    "update_pair" => {
                        // two vehicles changed in one batch, as Schedule does it: the second update sees
                        // the first one's new tour only through `updated_tours`. Prefer cycle neighbours.
                        let cyc: Vec<&Vec<VehicleIdx>> = model.iter().filter(|c| c.len() >= 2).collect();
                        let (a, b) = if !cyc.is_empty() && rng.chance(3, 4) {
                            let c = *rng.pick(&cyc);
                            let i = rng.usize(c.len());
                            let j = (i + 1) % c.len();
                            if rng.chance(1, 2) { (c[i], c[j]) } else { (c[j], c[i]) }
                        } else {
                            let a = *rng.pick(&members);
                            let others: Vec<VehicleIdx> = members.iter().copied().filter(|x| *x != a).collect();
                            (a, *rng.pick(&others))
                        };
                        json!({"t": "update_pair", "v": a.to_string(), "w": b.to_string(),
                               "start": cx.name(*rng.pick(&starts)), "end": cx.name(*rng.pick(&ends)),
                               "start2": cx.name(*rng.pick(&starts)), "end2": cx.name(*rng.pick(&ends))})
                    }
                    "add_own" => json!({"t": "add_own", "v": rng.pick(&outside).to_string()}),
                    "remove" => json!({"t": "remove", "v": rng.pick(&members).to_string()}),
                    "add_end" => {
                        // bias: emptied cycles
                        let emptied: Vec<usize> = (0..model.len()).filter(|&i| model[i].is_empty()).collect();
                        let c = if !emptied.is_empty() && rng.chance(1, 2) { *rng.pick(&emptied) } else { rng.usize(model.len()) };
                        json!({"t": "add_end", "v": rng.pick(&outside).to_string(), "cycle": c})
                    }
                    "move" => {
                        let emptied: Vec<usize> = (0..model.len()).filter(|&i| model[i].is_empty()).collect();
                        let c = if !emptied.is_empty() && rng.chance(1, 2) { *rng.pick(&emptied) } else { rng.usize(model.len()) };
                        json!({"t": "move", "v": rng.pick(&members).to_string(), "cycle": c})
                    }
                    "three_opt" => {
                        let big: Vec<usize> = (0..model.len()).filter(|&i| model[i].len() >= 3).collect();
                        let c = *rng.pick(&big);
                        let len = model[c].len();
                        let i = rng.usize(len - 2);
                        let j = i + 1 + rng.usize(len - i - 2);
                        let k = j + 1 + rng.usize(len - j - 1);
                        json!({"t": "three_opt", "cycle": c, "i": i, "j": j, "k": k})
                    }
                    _ => json!({"t": "new_fast"}),
                }
            }
        };
        let kind = op["t"].as_str().unwrap_or("").to_string();
        let v = op["v"].as_str().and_then(parse_vehicle);
        let c = op["cycle"].as_u64().map(|x| x as usize);
        let before_viol = cx.out.len();
        let in_model = |v: VehicleIdx| model.iter().flatten().any(|x| *x == v);
        let res: Option<Result<Transition, String>> = match kind.as_str() {
            "update" => match v {
                Some(v) if in_model(v) => {
                    let old = tours.get(&v).unwrap().clone();
                    let nt = if let Some(sd) = op["start"].as_str().and_then(|n| cx.node(n)) { old.replace_start_depot(sd).ok() } else { op["end"].as_str().and_then(|n| cx.node(n)).and_then(|e| old.replace_end_depot(e).ok()) };
                    match nt {
                        Some(nt) => {
                            let r = guarded(|| t.update_vehicle(v, &nt, &empty, &tours, &nw));
                            if r.is_ok() {
                                tours.insert(v, nt);
                            }
                            Some(r)
                        }
                        None => None,
                    }
                }
                _ => None,
            },
            "update_pair" => {
                let w = op["w"].as_str().and_then(parse_vehicle);
                match (v, w) {
                    (Some(a), Some(b)) if a != b && in_model(a) && in_model(b) => {
                        let mk = |cx: &Ctx, old: &Tour, sk: &str, ek: &str| -> Option<Tour> {
                            let t1 = op[sk].as_str().and_then(|n| cx.node(n)).and_then(|sd| old.replace_start_depot(sd).ok())?;
                            op[ek].as_str().and_then(|n| cx.node(n)).and_then(|e| t1.replace_end_depot(e).ok())
                        };
                        let (oa, ob) = (tours.get(&a).unwrap().clone(), tours.get(&b).unwrap().clone());
                        match (mk(cx, &oa, "start", "end"), mk(cx, &ob, "start2", "end2")) {
                            (Some(na), Some(nb)) => {
                                let r = guarded(|| {
                                    let t1 = t.update_vehicle(a, &na, &empty, &tours, &nw);
                                    let mut upd: ImHashMap<VehicleIdx, &Tour> = ImHashMap::new();
                                    upd.insert(a, &na);
                                    t1.update_vehicle(b, &nb, &upd, &tours, &nw)
                                });
                                if r.is_ok() {
                                    tours.insert(a, na);
                                    tours.insert(b, nb);
                                }
                                Some(r)
                            }
                            _ => None,
                        }
                    }
                    _ => None,
                }
            }
            "add_own" => match v {
                Some(v) if outside.contains(&v) => {
                    let r = guarded(|| t.add_vehicle_to_own_cycle(v, tours.get(&v).unwrap(), &nw));
                    if let Ok(t2) = &r {
                        // placement is a relation: v alone in a cycle that was empty, or in a new last cycle
                        let got = cycles_of(t2);
                        let pos = got.iter().position(|cy| cy.contains(&v));
                        let fine = match pos {
                            Some(p) if got[p] == vec![v] => {
                                if p < model.len() {
                                    model[p].is_empty()
                                } else {
                                    p == model.len() && got.len() == model.len() + 1
                                }
                            }
                            _ => false,
                        };
                        if !fine {
                            cx.v("C15", "C15.add_own_cycle_overwrites", format!("add_vehicle_to_own_cycle({}): cycles before {:?}, after {:?} — the vehicle must get a cycle that was really empty or a new one", v, model, got));
                        }
                        if let Some(p) = pos {
                            if p < model.len() {
                                model[p] = vec![v];
                            } else {
                                model.push(vec![v]);
                            }
                        }
                        outside.retain(|x| *x != v);
                    }
                    Some(r)
                }
                _ => None,
            },
            "remove" => match v {
                Some(v) if in_model(v) => {
                    let r = guarded(|| t.remove_vehicle(v, &empty, &tours, &nw));
                    if r.is_ok() {
                        for cy in model.iter_mut() {
                            cy.retain(|x| *x != v);
                        }
                        outside.push(v);
                    }
                    Some(r)
                }
                _ => None,
            },
            "add_end" => match (v, c) {
                (Some(v), Some(c)) if outside.contains(&v) && c < model.len() => {
                    let r = guarded(|| t.add_vehicle_at_the_end(v, c, &empty, &tours, &nw));
                    if r.is_ok() {
                        if model[c].is_empty() {
                            cx.probe("add_at_the_end_into_emptied_cycle");
                        }
                        model[c].push(v);
                        outside.retain(|x| *x != v);
                    }
                    Some(r)
                }
                _ => None,
            },
            "move" => match (v, c) {
                (Some(v), Some(c)) if in_model(v) && c < model.len() => {
                    let r = guarded(|| t.move_vehicle(v, c, &tours, &nw));
                    if r.is_ok() {
                        for cy in model.iter_mut() {
                            cy.retain(|x| *x != v);
                        }
                        if model[c].is_empty() {
                            cx.probe("move_into_emptied_cycle");
                        }
                        model[c].push(v);
                    }
                    Some(r)
                }
                _ => None,
            },
            "three_opt" => match c {
                Some(c) if c < model.len() => {
                    let (i, j, k) = (op["i"].as_u64().unwrap_or(0) as usize, op["j"].as_u64().unwrap_or(0) as usize, op["k"].as_u64().unwrap_or(0) as usize);
                    if i < j && j < k && k < model[c].len() {
                        let r = guarded(|| {
                            let nc = t.get_cycle(c).three_opt(i, j, k, &tours, &nw);
                            t.replace_cycle(c, nc)
                        });
                        if r.is_ok() {
                            model[c] = three_opt_model(&model[c], i, j, k);
                        }
                        Some(r)
                    } else {
                        None
                    }
                }
                _ => None,
            },
            "new_fast" => {
                let r = guarded(|| Transition::new_fast(&members, &tours, &nw));
                if let Ok(t2) = &r {
                    model = cycles_of(t2);
                }
                Some(r)
            }
            _ => None,
        };
        match res {
            None => {
                cx.probe("trans_op_skipped");
                continue;
            }
            Some(Err(p)) => {
                done.push(op.clone());
                cx.v("C15", &format!("C15.panic_in_{}:{}", kind, panic_signature(&p)), format!("Transition op {} panicked: {}", op, p));
            }
            Some(Ok(t2)) => {
                done.push(op.clone());
                t = t2;
                kinds.insert(kind.clone());
                cx.steps += 1;
                cx.probe(&format!("ok_trans_{}", kind));
                let exact = kind != "add_own";
                check_transition(cx, &kind, &t, &model, exact, vt, &tours);
            }
        }
        cx.log.push_str(&format!("{}|", op));
        if cx.out.len() > before_viol {
            break;
        }
    }
    cx.ops_done = done;
    cx.steps >= 3 && model.len() >= 2
}

#[derive(Clone)]
struct XState {
    t: Transition,
    model: Model,
    outside: Vec<VehicleIdx>,
}

#[derive(Clone, Debug)]
enum XOp {
    Move(VehicleIdx, usize),
    Remove(VehicleIdx),
    AddEnd(VehicleIdx, usize),
    AddOwn(VehicleIdx),
    ThreeOpt(usize, usize, usize, usize),
}

fn x_ops(st: &XState) -> Vec<XOp> {
    let mut ops = vec![];
    let members: Vec<VehicleIdx> = st.model.iter().flatten().copied().collect();
    for &v in &members {
        for c in 0..st.model.len() {
            ops.push(XOp::Move(v, c));
        }
        ops.push(XOp::Remove(v));
    }
    for &v in &st.outside {
        for c in 0..st.model.len() {
            ops.push(XOp::AddEnd(v, c));
        }
        ops.push(XOp::AddOwn(v));
    }
    for (c, cyc) in st.model.iter().enumerate() {
        let n = cyc.len();
        if n >= 3 {
            for i in 0..n - 2 {
                for j in i + 1..n - 1 {
                    for k in j + 1..n {
                        ops.push(XOp::ThreeOpt(c, i, j, k));
                    }
                }
            }
        }
    }
    ops
}

/// C15, small bound exhaustively: ALL sequences of up to `depth` rotation-cycle operations
/// (move / remove / add at the end / add to own cycle / 3-opt with every argument) on the first
/// <= 4 vehicles of the largest type, every intermediate transition checked. Returns #states.
pub fn run_trans_exhaust(cx: &mut Ctx, s: &Schedule, depth: usize) -> u64 {
    let nw = cx.ad.nw.clone();
    let tours = s.get_tours().clone();
    let vt = match cx.ad.ref_to_type.iter().copied().max_by_key(|vt| s.vehicles_iter(*vt).count()) {
        Some(vt) => vt,
        None => return 0,
    };
    let all: Vec<VehicleIdx> = s.vehicles_iter(vt).take(4).collect();
    if all.len() < 2 {
        return 0;
    }
    let inside = &all[..all.len() - 1];
    let t0 = Transition::new_fast(inside, &tours, &nw);
    let st0 = XState { model: cycles_of(&t0), t: t0, outside: vec![all[all.len() - 1]] };
    check_transition(cx, "create", &st0.t, &st0.model, true, vt, &tours);
    let empty: ImHashMap<VehicleIdx, &Tour> = ImHashMap::new();
    let mut states = 1u64;
    let mut frontier = vec![(st0, String::new())];
    for _level in 0..depth {
        let mut next = vec![];
        for (st, trace) in &frontier {
            for op in x_ops(st) {
                let mut n = st.clone();
                let (kind, r): (&str, Result<Transition, String>) = match &op {
                    XOp::Move(v, c) => ("move", guarded(|| st.t.move_vehicle(*v, *c, &tours, &nw))),
                    XOp::Remove(v) => ("remove", guarded(|| st.t.remove_vehicle(*v, &empty, &tours, &nw))),
                    XOp::AddEnd(v, c) => ("add_end", guarded(|| st.t.add_vehicle_at_the_end(*v, *c, &empty, &tours, &nw))),
                    XOp::AddOwn(v) => ("add_own", guarded(|| st.t.add_vehicle_to_own_cycle(*v, tours.get(v).unwrap(), &nw))),
                    XOp::ThreeOpt(c, i, j, k) => ("three_opt", guarded(|| {
                        let nc = st.t.get_cycle(*c).three_opt(*i, *j, *k, &tours, &nw);
                        st.t.replace_cycle(*c, nc)
                    })),
                };
                let tr = format!("{}{:?};", trace, op);
                let t2 = match r {
                    Ok(t2) => t2,
                    Err(p) => {
                        cx.v("C15", &format!("C15.panic_in_{}:{}", kind, panic_signature(&p)), format!("exhaustive sequence {} panicked: {}", tr, p));
                        return states;
                    }
                };
                let mut exact = true;
                match &op {
                    XOp::Move(v, c) => {
                        for cy in n.model.iter_mut() {
                            cy.retain(|x| x != v);
                        }
                        n.model[*c].push(*v);
                    }
                    XOp::Remove(v) => {
                        for cy in n.model.iter_mut() {
                            cy.retain(|x| x != v);
                        }
                        n.outside.push(*v);
                    }
                    XOp::AddEnd(v, c) => {
                        n.model[*c].push(*v);
                        n.outside.retain(|x| x != v);
                    }
                    XOp::AddOwn(v) => {
                        exact = false;
                        let got = cycles_of(&t2);
                        let pos = got.iter().position(|cy| cy.contains(v));
                        let fine = match pos {
                            Some(p) if got[p] == vec![*v] => {
                                if p < n.model.len() { n.model[p].is_empty() } else { p == n.model.len() && got.len() == n.model.len() + 1 }
                            }
                            _ => false,
                        };
                        if !fine {
                            cx.v("C15", "C15.add_own_cycle_overwrites", format!("exhaustive sequence {}: cycles before {:?}, after {:?}", tr, n.model, got));
                            return states;
                        }
                        let p = pos.unwrap();
                        if p < n.model.len() { n.model[p] = vec![*v]; } else { n.model.push(vec![*v]); }
                        n.outside.retain(|x| x != v);
                    }
                    XOp::ThreeOpt(c, i, j, k) => {
                        n.model[*c] = three_opt_model(&n.model[*c], *i, *j, *k);
                    }
                }
                n.t = t2;
                states += 1;
                let before = cx.out.len();
                check_transition(cx, kind, &n.t, &n.model, exact, vt, &tours);
                if cx.out.len() > before {
                    let last = cx.out.len() - 1;
                    cx.out[last].msg = format!("exhaustive sequence {}: {}", tr, cx.out[last].msg);
                    return states;
                }
                next.push((n, tr));
            }
        }
        frontier = next;
    }
    states
}
