//! Seeded generator of valid instances (swarm style: every dimension is re-drawn per run).

use crate::refmodel::fmt_time;
use crate::rng::Rng;
use serde_json::{json, Map, Value};

#[derive(Clone, Debug, Default)]
pub struct GenOpts {
    /// force at least one maintenance slot (local search runs only then)
    pub need_slots: bool,
    /// depot totals must not couple the vehicle types (quantifier of C14)
    pub no_type_coupling: bool,
    /// upper bound on departure segments
    pub max_segments: usize,
    /// bias to the regions C06 names
    pub risky: bool,
    /// prefix for all ids that appear in the output (attribution in SIM-C)
    pub id_prefix: String,
    /// bias to tie-rich time grids / zero shunting
    pub ties: bool,
    /// allow dead-head sentinels above the planning horizon (clamped by the loader)
    pub sentinels: bool,
    /// allow a non-zero diagonal of the dead-head matrix (a "turn-around" entry for staying at a
    /// station; the README does not exclude it). Only used where termination is the question.
    pub nonzero_diagonal: bool,
}

const BASE_DAY: i64 = 1_709_510_400; // 2024-03-04T00:00:00

/// the README's examples also use unpadded fields ("2023-7-24T6:00:00"); the short form without
/// seconds ("2009-4-15T12:10") is what the time library documents
fn fmt_time_variant(t: i64, variant: u8) -> String {
    let full = fmt_time(t); // YYYY-MM-DDTHH:MM:SS
    if variant == 0 {
        return full;
    }
    let (date, time) = full.split_once('T').unwrap();
    let d: Vec<i64> = date.split('-').map(|x| x.parse().unwrap()).collect();
    let h: Vec<i64> = time.split(':').map(|x| x.parse().unwrap()).collect();
    match variant {
        1 => format!("{}-{}-{}T{}:{:02}:{:02}", d[0], d[1], d[2], h[0], h[1], h[2]),
        _ => {
            if h[2] == 0 {
                format!("{}-{}-{}T{}:{:02}", d[0], d[1], d[2], h[0], h[1])
            } else {
                full
            }
        }
    }
}

fn opt_field(rng: &mut Rng, m: &mut Map<String, Value>, key: &str, v: Option<u64>) {
    match v {
        Some(x) => {
            m.insert(key.to_string(), json!(x));
        }
        None => {
            // absent or explicit null
            if rng.chance(1, 3) {
                m.insert(key.to_string(), Value::Null);
            }
        }
    }
}

/// returns (instance, swarm summary)
pub fn gen_instance(rng: &mut Rng, o: &GenOpts) -> (Value, Value) {
    let pfx = &o.id_prefix;


    let mut max_segments = if o.max_segments == 0 { 12 } else { o.max_segments };
    // a minority of larger instances (more vehicles per type, longer cycles, bigger neighbourhoods)
    let large = o.max_segments >= 12 && rng.chance(1, 12);
    if large {
        max_segments = 18;
    }
    // ---- swarm configuration ------------------------------------------------------------
    let n_types = *rng.pick(&[1usize, 1, 2, 2, 3]);
    let n_locs = rng.range(2, 5) as usize;
    let grid: i64 = if o.ties || rng.chance(1, 2) { *rng.pick(&[300i64, 600, 900]) } else { 60 };
    let sh_min: u64 = if o.ties { *rng.pick(&[0u64, 0, 0, 300]) } else { *rng.pick(&[0u64, 0, 60, 300, 600]) };
    let sh_dh: u64 = *rng.pick(&[0u64, 0, 60, 300]);
    let forbid = rng.chance(1, 6);
    let metric = rng.chance(2, 3);
    // limit mode: 0 neither, 1 type only, 2 segment only, 3 both
    let limit_mode = rng.usize(4);
    let depots_mode = {
        // 0 absent, 1 ample, 2 scarce, 3 empty list, 4 zero capacity
        let w: [u32; 5] = if o.risky { [20, 20, 35, 10, 15] } else { [30, 38, 22, 5, 5] };
        rng.weighted(&w)
    };
    let n_slots = if o.need_slots {
        rng.range(1, 3) as usize
    } else {
        *rng.pick(&[0usize, 0, 1, 1, 2, 3])
    };
    let slots_field_absent = n_slots == 0 && rng.chance(1, 2);
    // maintenance parameter: 0 absent, 1 loose, 2 tight, 3 zero
    let maint_mode = {
        let w: [u32; 4] = if o.risky { [25, 15, 45, 15] } else { [15, 35, 45, 5] };
        rng.weighted(&w)
    };
    let demand_max = if large { *rng.pick(&[1u64, 2, 2]) } else if o.risky { 4 } else { *rng.pick(&[1u64, 2, 2, 3, 4]) };
    let two_days = rng.chance(1, 8);
    let three_days = two_days && rng.chance(1, 4);
    let time_variant: u8 = *rng.pick(&[0u8, 0, 0, 0, 0, 0, 1, 2]);
    // odd seconds instead of whole minutes (fine grid only)
    let odd_seconds = rng.chance(1, 10);
    let type_without_routes = n_types >= 2 && rng.chance(1, 12);

    // ids of different kinds of objects live in separate namespaces and may coincide
    let alias_ids = rng.chance(1, 6);
    // ids need not be in the order in which the objects are listed (nor sorted): permute the suffixes
    let mut perm: Vec<usize> = (0..10).collect();
    if rng.chance(1, 2) {
        rng.shuffle(&mut perm);
    }
    let perm_t = perm.clone();
    let type_id = move |t: usize| if alias_ids { format!("{}X{}", pfx, perm_t[t % 10]) } else { format!("{}vt{}", pfx, perm_t[t % 10]) };
    // ---- vehicle types ------------------------------------------------------------------
    let mut types = vec![];
    let mut type_caps = vec![];
    for t in 0..n_types {
        let capacity = rng.range(2, 20) as u64 * 10;
        let seats = (capacity * rng.range(3, 10) as u64 / 10).max(1);
        let limit = if limit_mode == 1 || limit_mode == 3 {
            if rng.chance(4, 5) {
                Some(rng.range(1, 4) as u64)
            } else {
                None
            }
        } else {
            None
        };
        let mut m = Map::new();
        m.insert("id".into(), json!(type_id(t)));
        m.insert("capacity".into(), json!(capacity));
        m.insert("seats".into(), json!(seats));
        opt_field(rng, &mut m, "maximalFormationCount", limit);
        types.push(Value::Object(m));
        type_caps.push((capacity, seats));
    }

    // ---- locations + dead-head matrix -----------------------------------------------------
    let loc_ids: Vec<String> = (0..n_locs).map(|i| if alias_ids { format!("{}X{}", pfx, perm[(i + 3) % 10]) } else { format!("{}L{}", pfx, perm[(i + 3) % 10]) }).collect();
    let mut locations = vec![];
    for id in &loc_ids {
        let mut m = Map::new();
        m.insert("id".into(), json!(id));
        match rng.usize(8) {
            0 => {
                m.insert("dayLimit".into(), json!(rng.range(1, 9)));
            }
            1 => {
                m.insert("dayLimit".into(), Value::Null);
            }
            _ => {}
        }
        locations.push(Value::Object(m));
    }
    let mut tt = vec![vec![0u64; n_locs]; n_locs];
    let mut dd = vec![vec![0u64; n_locs]; n_locs];
    if metric {
        // points on a line: metric and symmetric
        let pos: Vec<i64> = (0..n_locs).map(|_| rng.range(0, 40)).collect();
        let speed_grid = if grid >= 300 { grid } else { 60 };
        for i in 0..n_locs {
            for j in 0..n_locs {
                if i != j {
                    let d = (pos[i] - pos[j]).abs().max(1) as u64;
                    dd[i][j] = d * 2000;
                    tt[i][j] = if speed_grid >= 300 { d * speed_grid as u64 } else { d * 180 };
                }
            }
        }
    } else {
        for i in 0..n_locs {
            for j in 0..n_locs {
                if i != j {
                    dd[i][j] = rng.range(0, 60) as u64 * 1000;
                    tt[i][j] = if grid >= 300 {
                        rng.range(1, 12) as u64 * grid as u64
                    } else {
                        rng.range(1, 90) as u64 * 60
                    };
                }
            }
        }
    }
    // distinct locations may be zero seconds apart (yard next to a station): the dead-head rule
    // (shunting on both non-depot sides) still applies, only the travel time is 0
    if n_locs >= 2 && rng.chance(1, 5) {
        let i = rng.usize(n_locs);
        let mut j = rng.usize(n_locs);
        if i == j {
            j = (j + 1) % n_locs;
        }
        tt[i][j] = 0;
        if rng.chance(2, 3) {
            tt[j][i] = 0;
        }
        if rng.chance(1, 2) {
            dd[i][j] = 0;
            dd[j][i] = 0;
        }
    }
    if o.nonzero_diagonal && rng.chance(1, 6) {
        let i = rng.usize(n_locs);
        tt[i][i] = *rng.pick(&[60u64, 180, 600]);
        if rng.chance(1, 2) {
            dd[i][i] = 1000;
        }
    }
    // the loader clamps durations above the planning horizon: stay well below one day ...
    for row in tt.iter_mut() {
        for x in row.iter_mut() {
            if *x > 36_000 {
                *x = 36_000;
            }
        }
    }
    // ... except for an occasional "no direct connection" sentinel, which the loader replaces by
    // the planning duration (and a distance above 1000 km by 1000 km); REF mirrors both clamps
    if o.sentinels && n_locs >= 2 && rng.chance(1, 3) {
        let i = rng.usize(n_locs);
        let mut j = rng.usize(n_locs);
        if i == j {
            j = (j + 1) % n_locs;
        }
        tt[i][j] = 100_000;
        if rng.chance(1, 2) {
            tt[j][i] = 100_000;
        }
        if rng.chance(1, 2) {
            dd[i][j] = 5_000_000;
        }
    }
    let mut order: Vec<usize> = (0..n_locs).collect();
    if rng.chance(1, 3) {
        rng.shuffle(&mut order);
    }
    let indices: Vec<Value> = order.iter().map(|&i| json!(loc_ids[i])).collect();
    let durations: Vec<Value> = order
        .iter()
        .map(|&i| Value::Array(order.iter().map(|&j| json!(tt[i][j])).collect()))
        .collect();
    let distances: Vec<Value> = order
        .iter()
        .map(|&i| Value::Array(order.iter().map(|&j| json!(dd[i][j])).collect()))
        .collect();

    // ---- routes ---------------------------------------------------------------------------
    let n_routes = rng.range(1, 4) as usize;
    // route segment ids need to be unique only within their route
    let route_local_segment_ids = rng.chance(1, 4);
    struct RSeg {
        id: String,
        dur: i64,
    }
    struct Route {
        id: String,
        vt: usize,
        segs: Vec<RSeg>,
    }
    let mut routes_json = vec![];
    let mut routes: Vec<Route> = vec![];
    let usable_types = if type_without_routes { n_types - 1 } else { n_types };
    for r in 0..n_routes {
        let vt = rng.usize(usable_types);
        let n_seg = *rng.pick(&[1usize, 1, 1, 2, 2, 3]);
        let mut cur = rng.usize(n_locs);
        let mut segs_json = vec![];
        let mut segs = vec![];
        for s in 0..n_seg {
            let mut to = rng.usize(n_locs);
            if to == cur && !rng.chance(1, 6) {
                // (a round trip that ends where it starts is valid, but kept rare)
                to = (to + 1) % n_locs;
            }
            let dur = if grid >= 300 {
                rng.range(1, 8) * grid
            } else {
                rng.range(5, 120) * 60
            };
            let dist = if rng.chance(1, 25) { 0 } else if rng.chance(1, 30) { rng.range(100, 900) as u64 * 1000 } else { rng.range(1, 60) as u64 * 1000 };
            let seg_limit = if limit_mode == 2 || limit_mode == 3 {
                if rng.chance(4, 5) {
                    Some(rng.range(1, 3) as u64)
                } else {
                    None
                }
            } else {
                None
            };
            let id = if route_local_segment_ids { format!("{}seg{}", pfx, s) } else { format!("{}r{}s{}", pfx, r, s) };
            let mut m = Map::new();
            m.insert("id".into(), json!(id));
            m.insert("order".into(), json!(s));
            m.insert("origin".into(), json!(loc_ids[cur]));
            m.insert("destination".into(), json!(loc_ids[to]));
            m.insert("distance".into(), json!(dist));
            m.insert("duration".into(), json!(dur));
            opt_field(rng, &mut m, "maximalFormationCount", seg_limit);
            segs_json.push(Value::Object(m));
            segs.push(RSeg { id, dur });
            cur = to;
        }
        let id = if alias_ids { format!("{}X{}", pfx, r) } else { format!("{}r{}", pfx, r) };
        if segs_json.len() >= 2 && rng.chance(1, 5) {
            // the list order of a route's segments carries no meaning (`order` does)
            segs_json.reverse();
        }
        routes_json.push(json!({"id": id, "vehicleType": type_id(vt), "segments": segs_json}));
        routes.push(Route { id, vt, segs });
    }

    // ---- departures -----------------------------------------------------------------------
    let mut departures = vec![];
    let mut n_segments = 0usize;
    let n_dep = if large { rng.range(6, 14) as usize } else { rng.range(1, 7) as usize };
    let day_span: i64 = if three_days { 62 * 3600 } else if two_days { 40 * 3600 } else { 16 * 3600 };
    let mut earliest = i64::MAX;
    let mut latest = i64::MIN;
    for d in 0..n_dep {
        let r = &routes[rng.usize(routes.len())];
        if n_segments + r.segs.len() > max_segments {
            continue;
        }
        let mut t = BASE_DAY + 4 * 3600 + rng.range(0, day_span / grid) * grid;
        if odd_seconds && grid == 60 {
            t += rng.range(0, 59);
        }
        let mut segs = vec![];
        // a departure serves the whole route or a contiguous part of it (short-turn service)
        let (from_seg, to_seg) = if r.segs.len() >= 2 && rng.chance(1, 3) {
            let a = rng.usize(r.segs.len());
            let b = a + rng.usize(r.segs.len() - a);
            (a, b)
        } else {
            (0, r.segs.len() - 1)
        };
        for (k, s) in r.segs.iter().enumerate() {
            if k < from_seg || k > to_seg {
                continue;
            }
            let (cap, seats) = type_caps[r.vt];
            let want = rng.range(1, demand_max as i64) as u64;
            let passengers = if rng.chance(1, 15) {
                0
            } else {
                cap * (want - 1) + rng.range(1, cap as i64) as u64
            };
            let seated = if passengers == 0 {
                0
            } else if rng.chance(1, 6) {
                // seats are the binding resource: more vehicles needed for the seated passengers
                // than for the passengers as a whole
                let want_seats = (want + rng.range(1, 2) as u64).min(5);
                (seats * (want_seats - 1) + rng.range(1, seats as i64) as u64).min(passengers)
            } else if rng.chance(1, 4) {
                // seats may be the binding resource
                (seats * (want - 1) + rng.range(1, seats as i64) as u64).min(passengers)
            } else {
                rng.range(0, passengers.min(seats * want) as i64) as u64
            };
            segs.push(json!({
                "id": format!("{}d{}s{}", pfx, d, k),
                "routeSegment": s.id,
                "departure": fmt_time_variant(t, time_variant),
                "passengers": passengers,
                "seated": seated,
            }));
            earliest = earliest.min(t);
            latest = latest.max(t + s.dur);
            // next segment must be servable in order: arrival + minimal shunting <= next departure
            let wait = if grid >= 300 {
                ((sh_min as i64 + grid - 1) / grid) * grid + rng.range(0, 2) * grid
            } else {
                sh_min as i64 + rng.range(0, 10) * 60
            };
            t += s.dur + wait;
            n_segments += 1;
        }
        departures.push(json!({"id": format!("{}d{}", pfx, d), "route": r.id, "segments": segs}));
    }
    if departures.is_empty() {
        // always at least one departure
        let r = &routes[0];
        let mut t = BASE_DAY + 8 * 3600;
        let mut segs = vec![];
        for (k, s) in r.segs.iter().enumerate() {
            segs.push(json!({
                "id": format!("{}d0s{}", pfx, k),
                "routeSegment": s.id,
                "departure": fmt_time_variant(t, time_variant),
                "passengers": 10,
                "seated": 5,
            }));
            earliest = earliest.min(t);
            latest = latest.max(t + s.dur);
            t += s.dur + ((sh_min as i64 + grid - 1) / grid) * grid;
            n_segments += 1;
        }
        departures.push(json!({"id": format!("{}d0", pfx), "route": r.id, "segments": segs}));
    }

    // ---- maintenance slots ----------------------------------------------------------------
    let mut slots = vec![];
    // bias: a pair of slots that one vehicle can visit in the same tour (one before the first
    // departure, one after the last arrival)
    let slot_pair = n_slots >= 2 && rng.chance(1, 3);
    for m in 0..n_slots {
        if slot_pair && m < 2 {
            let dur = if grid >= 300 { rng.range(2, 6) * grid } else { rng.range(20, 90) * 60 };
            let start = if m == 0 { earliest - dur - rng.range(1, 8) * grid.max(300) } else { latest + rng.range(1, 8) * grid.max(300) };
            slots.push(json!({
                "id": format!("{}ms{}", pfx, m),
                "location": loc_ids[rng.usize(n_locs)],
                "start": fmt_time_variant(start, time_variant),
                "end": fmt_time_variant(start + dur, time_variant),
                "trackCount": *rng.pick(&[1u64, 2, 2, 3, 0, 1, 2, 2, 3, 1, 2, 3]),
            }));
            continue;
        }
        let start = if rng.chance(1, 2) {
            // near the activities
            earliest - 6 * 3600 + rng.range(0, ((latest - earliest) + 10 * 3600) / grid) * grid
        } else {
            BASE_DAY + rng.range(0, (22 * 3600) / grid) * grid
        };
        let dur = if grid >= 300 { rng.range(2, 16) * grid } else { rng.range(20, 240) * 60 };
        slots.push(json!({
            "id": format!("{}ms{}", pfx, m),
            "location": loc_ids[rng.usize(n_locs)],
            "start": fmt_time_variant(start, time_variant),
            "end": fmt_time_variant(start + dur, time_variant),
            // a slot without tracks ("closed") is valid input: nobody may ever be assigned to it
            "trackCount": *rng.pick(&[1u64, 1, 2, 2, 3, 0, 1, 1, 2, 2, 3, 1]),
        }));
    }

    // ---- depots ---------------------------------------------------------------------------
    let depots: Option<Vec<Value>> = match depots_mode {
        0 => None,
        3 => Some(vec![]),
        mode => {
            let n_dep = rng.range(1, n_locs as i64 + 1) as usize;
            let mut ds = vec![];
            for i in 0..n_dep {
                // several depots at one location are valid (and not rare in practice: yards)
                let loc = if i < n_locs && rng.chance(2, 3) { i } else { rng.usize(n_locs) };
                let mut allowed = vec![];
                let mut sum_caps = 0u64;
                let mut any_unbounded = false;
                for t in 0..n_types {
                    let listed = match mode {
                        1 => rng.chance(9, 10),
                        _ => rng.chance(7, 10),
                    };
                    if !listed {
                        continue;
                    }
                    let cap: Option<u64> = match mode {
                        1 => {
                            if rng.chance(1, 2) {
                                None
                            } else {
                                Some(rng.range(6, 30) as u64)
                            }
                        }
                        4 => Some(0),
                        _ => {
                            if rng.chance(1, 4) {
                                None
                            } else {
                                Some(rng.range(0, 4) as u64)
                            }
                        }
                    };
                    let mut m = Map::new();
                    m.insert("vehicleType".into(), json!(type_id(t)));
                    match cap {
                        Some(c) => {
                            sum_caps += c;
                            m.insert("capacity".into(), json!(c));
                        }
                        None => {
                            any_unbounded = true;
                            if rng.chance(1, 4) {
                                m.insert("capacity".into(), Value::Null);
                            }
                        }
                    }
                    allowed.push(Value::Object(m));
                }
                let mut total = match mode {
                    1 => rng.range(10, 60) as u64,
                    4 => {
                        if rng.chance(1, 2) {
                            0
                        } else {
                            rng.range(0, 3) as u64
                        }
                    }
                    _ => rng.range(0, 6) as u64,
                };
                if o.no_type_coupling && n_types > 1 {
                    // total >= sum of per-type capacities; no unbounded per-type entry
                    if any_unbounded {
                        for a in allowed.iter_mut() {
                            let am = a.as_object_mut().unwrap();
                            if am.get("capacity").map(|c| c.is_null()).unwrap_or(true) {
                                let c = rng.range(0, 5) as u64;
                                sum_caps += c;
                                am.insert("capacity".into(), json!(c));
                            }
                        }
                    }
                    total = total.max(sum_caps);
                }
                ds.push(json!({
                    "id": if alias_ids { format!("{}X{}", pfx, perm[(i + 5) % 10]) } else { format!("{}dep{}", pfx, perm[(i + 5) % 10]) },
                    "location": loc_ids[loc],
                    "capacity": total,
                    "allowedTypes": allowed,
                }));
            }
            Some(ds)
        }
    };

    // ---- parameters -----------------------------------------------------------------------
    let cost_pick = |rng: &mut Rng| -> u64 { *rng.pick(&[0u64, 1, 1, 2, 3, 5, 10]) };
    let mut costs = Map::new();
    costs.insert("staff".into(), json!(cost_pick(rng)));
    costs.insert("serviceTrip".into(), json!(cost_pick(rng)));
    match rng.usize(8) {
        0 => {}
        1 => {
            costs.insert("maintenance".into(), Value::Null);
        }
        _ => {
            costs.insert("maintenance".into(), json!(cost_pick(rng)));
        }
    }
    costs.insert("deadHeadTrip".into(), json!(cost_pick(rng)));
    costs.insert("idle".into(), json!(cost_pick(rng)));
    let mut params = Map::new();
    match rng.usize(4) {
        0 => {}
        1 => {
            params.insert("forbidDeadHeadTrips".into(), Value::Null);
        }
        _ => {
            params.insert("forbidDeadHeadTrips".into(), json!(forbid));
        }
    }
    let forbid_effective = params
        .get("forbidDeadHeadTrips")
        .and_then(|x| x.as_bool())
        .unwrap_or(false);
    match rng.usize(10) {
        0 | 1 => {
            params.insert("dayLimitThreshold".into(), json!(rng.range(0, 600)));
        }
        2 => {
            params.insert("dayLimitThreshold".into(), Value::Null);
        }
        _ => {}
    }
    params.insert(
        "shunting".into(),
        json!({"minimalDuration": sh_min, "deadHeadTripDuration": sh_dh}),
    );
    let max_dist: Option<u64> = match maint_mode {
        0 => None,
        1 => Some(10_000_000),
        2 => Some(rng.range(5, 200) as u64 * 1000),
        _ => Some(0),
    };
    if let Some(md) = max_dist {
        params.insert("maintenance".into(), json!({"maximalDistance": md}));
    } else if rng.chance(1, 3) {
        params.insert("maintenance".into(), Value::Null);
    }
    params.insert("costs".into(), Value::Object(costs));

    // ---- assemble ---------------------------------------------------------------------------
    let mut inst = Map::new();
    inst.insert("vehicleTypes".into(), Value::Array(types));
    inst.insert("locations".into(), Value::Array(locations));
    match depots {
        Some(ds) => {
            inst.insert("depots".into(), Value::Array(ds));
        }
        None => {
            if rng.chance(1, 3) {
                inst.insert("depots".into(), Value::Null);
            }
        }
    }
    inst.insert("routes".into(), Value::Array(routes_json));
    inst.insert("departures".into(), Value::Array(departures));
    if !slots.is_empty() || !slots_field_absent {
        inst.insert("maintenanceSlots".into(), Value::Array(slots));
    } else if rng.chance(1, 3) {
        inst.insert("maintenanceSlots".into(), Value::Null);
    }
    inst.insert(
        "deadHeadTrips".into(),
        json!({"indices": indices, "durations": durations, "distances": distances}),
    );
    inst.insert("parameters".into(), Value::Object(params));

    let limit_mode_s = ["none", "type", "segment", "both"][limit_mode];
    let depots_mode_s = ["absent", "ample", "scarce", "empty", "zero"][depots_mode];
    let maint_mode_s = ["absent", "loose", "tight", "zero"][maint_mode];
    let summary = json!({
        "types": n_types, "locations": n_locs, "segments": n_segments, "slots": n_slots,
        "grid": grid, "shunting": [sh_min, sh_dh], "forbidDeadHeads": forbid_effective,
        "metric": metric, "limitMode": limit_mode_s,
        "depots": depots_mode_s,
        "maintenance": maint_mode_s,
        "demandMax": demand_max, "twoDays": two_days, "typeWithoutRoutes": type_without_routes, "large": large,
    });
    (Value::Object(inst), summary)
}
