//! One integer decides everything: a small, dependency-free, portable PRNG.
//! splitmix64 for seed derivation, xoshiro256** for streams.

#[inline]
pub fn splitmix64(state: &mut u64) -> u64 {
    *state = state.wrapping_add(0x9E37_79B9_7F4A_7C15);
    let mut z = *state;
    z = (z ^ (z >> 30)).wrapping_mul(0xBF58_476D_1CE4_E5B9);
    z = (z ^ (z >> 27)).wrapping_mul(0x94D0_49BB_1331_11EB);
    z ^ (z >> 31)
}

/// seed of run `i` of simulator `sim` in the batch `batch_seed`
pub fn run_seed(batch_seed: u64, sim: u64, i: u64) -> u64 {
    let mut s = batch_seed ^ 0xA076_1D64_78BD_642F;
    let a = splitmix64(&mut s);
    let mut s2 = a ^ sim.wrapping_mul(0xE703_7ED1_A0B4_28DB);
    let b = splitmix64(&mut s2);
    let mut s3 = b ^ i.wrapping_mul(0x8EBC_6AF0_9C88_C6E3);
    splitmix64(&mut s3)
}

#[derive(Clone, Debug)]
pub struct Rng {
    s: [u64; 4],
    pub draws: u64,
}

impl Rng {
    pub fn new(seed: u64) -> Rng {
        let mut st = seed;
        let s = [
            splitmix64(&mut st),
            splitmix64(&mut st),
            splitmix64(&mut st),
            splitmix64(&mut st),
        ];
        Rng { s, draws: 0 }
    }

    /// independent sub-stream (so adding draws in one component does not shift others)
    pub fn fork(&mut self, tag: u64) -> Rng {
        let x = self.next_u64() ^ tag.wrapping_mul(0x9E37_79B9_7F4A_7C15);
        Rng::new(x)
    }

    pub fn next_u64(&mut self) -> u64 {
        self.draws += 1;
        let result = self.s[1].wrapping_mul(5).rotate_left(7).wrapping_mul(9);
        let t = self.s[1] << 17;
        self.s[2] ^= self.s[0];
        self.s[3] ^= self.s[1];
        self.s[1] ^= self.s[2];
        self.s[0] ^= self.s[3];
        self.s[2] ^= t;
        self.s[3] = self.s[3].rotate_left(45);
        result
    }

    /// uniform in 0..n (n>0)
    pub fn below(&mut self, n: u64) -> u64 {
        debug_assert!(n > 0);
        // multiply-shift; bias negligible for our n
        ((self.next_u64() as u128 * n as u128) >> 64) as u64
    }

    pub fn range(&mut self, lo: i64, hi_incl: i64) -> i64 {
        debug_assert!(hi_incl >= lo);
        lo + self.below((hi_incl - lo + 1) as u64) as i64
    }

    pub fn usize(&mut self, n: usize) -> usize {
        self.below(n as u64) as usize
    }

    pub fn chance(&mut self, num: u64, den: u64) -> bool {
        self.below(den) < num
    }

    pub fn pick<'a, T>(&mut self, xs: &'a [T]) -> &'a T {
        &xs[self.usize(xs.len())]
    }

    pub fn shuffle<T>(&mut self, xs: &mut [T]) {
        for i in (1..xs.len()).rev() {
            let j = self.usize(i + 1);
            xs.swap(i, j);
        }
    }

    /// weighted choice, returns index
    pub fn weighted(&mut self, w: &[u32]) -> usize {
        let total: u64 = w.iter().map(|&x| x as u64).sum();
        debug_assert!(total > 0);
        let mut r = self.below(total);
        for (i, &x) in w.iter().enumerate() {
            if r < x as u64 {
                return i;
            }
            r -= x as u64;
        }
        w.len() - 1
    }
}

/// FNV-1a 64 over bytes: stable digest for logs/evidence (not for security)
pub fn fnv64(bytes: &[u8]) -> u64 {
    let mut h: u64 = 0xcbf2_9ce4_8422_2325;
    for b in bytes {
        h ^= *b as u64;
        h = h.wrapping_mul(0x0000_0100_0000_01B3);
    }
    h
}

pub fn digest_str(s: &str) -> String {
    format!("{:016x}", fnv64(s.as_bytes()))
}
