//! C14: the min-cost-flow start solution against an independently computed optimum of the
//! per-type covering circulation (own successive-shortest-path solver with lexicographic
//! (vehicles, operating cost) arc costs; lower bounds by the standard excess transformation).

use crate::adapter::Adapter;
use crate::oracle_out::{viol, Violation};
use crate::refmodel::*;
use crate::refstate::{recompute_tour, snap};
use crate::rng::digest_str;
use model::json_serialisation::load_rolling_stock_problem_instance_from_json;
use serde_json::Value;
use solver::min_cost_flow_solver::MinCostFlowSolver;
use std::collections::BTreeMap;

type Cost = (i64, i64);

fn add(a: Cost, b: Cost) -> Cost {
    (a.0 + b.0, a.1 + b.1)
}
fn neg(a: Cost) -> Cost {
    (-a.0, -a.1)
}
fn mul(a: Cost, k: i64) -> Cost {
    (a.0 * k, a.1 * k)
}

#[derive(Clone)]
struct Edge {
    to: usize,
    cap: i64,
    cost: Cost,
    flow: i64,
}

struct Mcf {
    g: Vec<Vec<usize>>,
    e: Vec<Edge>,
}

impl Mcf {
    fn new(n: usize) -> Mcf {
        Mcf { g: vec![vec![]; n], e: vec![] }
    }
    fn add_node(&mut self) -> usize {
        self.g.push(vec![]);
        self.g.len() - 1
    }
    fn add_edge(&mut self, u: usize, v: usize, cap: i64, cost: Cost) -> usize {
        let id = self.e.len();
        self.e.push(Edge { to: v, cap, cost, flow: 0 });
        self.e.push(Edge { to: u, cap: 0, cost: neg(cost), flow: 0 });
        self.g[u].push(id);
        self.g[v].push(id + 1);
        id
    }
    /// successive shortest paths (Bellman-Ford), returns (flow, cost)
    fn min_cost_max_flow(&mut self, s: usize, t: usize) -> (i64, Cost) {
        let n = self.g.len();
        let mut total_flow = 0;
        let mut total_cost = (0, 0);
        loop {
            let inf: Cost = (i64::MAX / 4, 0);
            let mut dist = vec![inf; n];
            let mut prev: Vec<Option<usize>> = vec![None; n];
            dist[s] = (0, 0);
            for _ in 0..n {
                let mut changed = false;
                for u in 0..n {
                    if dist[u] == inf {
                        continue;
                    }
                    for &id in &self.g[u] {
                        let ed = &self.e[id];
                        if ed.cap - ed.flow > 0 {
                            let nd = add(dist[u], ed.cost);
                            if nd < dist[ed.to] {
                                dist[ed.to] = nd;
                                prev[ed.to] = Some(id);
                                changed = true;
                            }
                        }
                    }
                }
                if !changed {
                    break;
                }
            }
            if dist[t] == inf {
                break;
            }
            // bottleneck
            let mut b = i64::MAX;
            let mut v = t;
            while v != s {
                let id = prev[v].unwrap();
                b = b.min(self.e[id].cap - self.e[id].flow);
                v = self.e[id ^ 1].to;
            }
            let mut v = t;
            while v != s {
                let id = prev[v].unwrap();
                self.e[id].flow += b;
                self.e[id ^ 1].flow -= b;
                v = self.e[id ^ 1].to;
            }
            total_flow += b;
            total_cost = add(total_cost, mul(dist[t], b));
        }
        (total_flow, total_cost)
    }
}

pub struct RefOptimum {
    pub vehicles: i64,
    pub cost: i64,
    pub uses_overflow: bool,
}

/// optimum of the covering circulation of type t; `allot[slot act]` = tracks allotted to t
pub fn ref_optimum(inst: &RefInstance, t: usize, allot: &BTreeMap<usize, u64>, overflow_leg_seconds: u64) -> Option<RefOptimum> {
    let acts: Vec<usize> = (0..inst.acts.len())
        .filter(|&a| match inst.acts[a].kind {
            ActKind::Service => inst.acts[a].vtype == Some(t),
            ActKind::Maint => allot.get(&a).copied().unwrap_or(0) > 0,
        })
        .collect();
    let nd = inst.depots.len() + 1; // + overflow
    let mut m = Mcf::new(0);
    let ins: Vec<usize> = acts.iter().map(|_| m.add_node()).collect();
    let outs: Vec<usize> = acts.iter().map(|_| m.add_node()).collect();
    let dl: Vec<usize> = (0..nd).map(|_| m.add_node()).collect();
    let dr: Vec<usize> = (0..nd).map(|_| m.add_node()).collect();
    let ss = m.add_node();
    let tt = m.add_node();
    let mut excess = vec![0i64; m.g.len()];
    let mut fixed_cost: Cost = (0, 0);
    let c = &inst.costs;
    let big = 1_000_000i64;
    let mut act_edges = vec![];
    for (i, &a) in acts.iter().enumerate() {
        let act = &inst.acts[a];
        let dur = (act.end - act.start) as i64;
        let (lo, hi, unit) = match act.kind {
            ActKind::Service => (inst.served(a) as i64, act.limit().map(|l| l as i64).unwrap_or(big), dur * c.service as i64),
            ActKind::Maint => (allot[&a] as i64, allot[&a] as i64, dur * c.maintenance as i64),
        };
        if lo > hi {
            return None;
        }
        excess[outs[i]] += lo;
        excess[ins[i]] -= lo;
        fixed_cost = add(fixed_cost, (0, unit * lo));
        act_edges.push(m.add_edge(ins[i], outs[i], hi - lo, (0, unit)));
    }
    for (i, &a) in acts.iter().enumerate() {
        for (j, &b) in acts.iter().enumerate() {
            if i != j && inst.connectable(a, b) {
                let (x, y) = (&inst.acts[a], &inst.acts[b]);
                let travel = inst.tt[x.to][y.from] as i64;
                let gap = y.start - x.end;
                let cost = travel * c.dead_head as i64 + (gap - travel).max(0) * c.idle as i64;
                m.add_edge(outs[i], ins[j], big, (0, cost));
            }
        }
    }
    let mut depot_edges = vec![];
    for d in 0..nd {
        let (cap, loc) = if d < inst.depots.len() {
            let dep = &inst.depots[d];
            let cap = dep.cap_for(t);
            (if cap == UNLIMITED { big } else { cap as i64 }, Some(dep.loc))
        } else {
            (big, None)
        };
        depot_edges.push(m.add_edge(dl[d], dr[d], cap, (1, 0)));
        for (i, &a) in acts.iter().enumerate() {
            let act = &inst.acts[a];
            let (cs, ce) = match loc {
                Some(l) => (inst.tt[l][act.from] as i64 * c.dead_head as i64, inst.tt[act.to][l] as i64 * c.dead_head as i64),
                None => (overflow_leg_seconds as i64 * c.dead_head as i64, overflow_leg_seconds as i64 * c.dead_head as i64),
            };
            m.add_edge(dr[d], ins[i], big, (0, cs));
            m.add_edge(outs[i], dl[d], big, (0, ce));
        }
    }
    let mut need = 0;
    for v in 0..excess.len() {
        if excess[v] > 0 {
            m.add_edge(ss, v, excess[v], (0, 0));
            need += excess[v];
        } else if excess[v] < 0 {
            m.add_edge(v, tt, -excess[v], (0, 0));
        }
    }
    let (f, cost) = m.min_cost_max_flow(ss, tt);
    if f != need {
        return None;
    }
    let total = add(cost, fixed_cost);
    let vehicles: i64 = depot_edges.iter().map(|&e| m.e[e].flow).sum();
    debug_assert_eq!(vehicles, total.0);
    Some(RefOptimum {
        vehicles: total.0,
        cost: total.1,
        uses_overflow: m.e[depot_edges[nd - 1]].flow > 0,
    })
}

pub fn check_c14(instance: Value, inst: &RefInstance) -> (Vec<Violation>, bool, BTreeMap<String, u64>, String) {
    let mut out = vec![];
    let mut probes: BTreeMap<String, u64> = BTreeMap::new();
    let mut bump = |k: &str| *probes.entry(k.to_string()).or_insert(0) += 1;
    let nw = load_rolling_stock_problem_instance_from_json(instance);
    let ad = match Adapter::new(inst, nw.clone()) {
        Ok(a) => a,
        Err(e) => {
            out.push(viol("C17", "C17.identity", e));
            return (out, false, probes, String::new());
        }
    };
    // quantifier: depot totals must not couple the types
    if inst.types.len() > 1 {
        for d in &inst.depots {
            let sum: u128 = (0..inst.types.len()).map(|t| d.cap_for(t) as u128).sum();
            if d.total != UNLIMITED && sum > d.total as u128 {
                bump("skipped_types_coupled");
                return (out, false, probes, String::new());
            }
        }
    }
    let s = MinCostFlowSolver::initialize(nw.clone()).solve();
    let sn = snap(&ad, &s);
    let mut nontrivial = false;
    let mut digest_src = String::new();
    if !sn.dummies.is_empty() {
        out.push(viol("C14", "C14.dummy_tours_in_start_solution", format!("start solution contains dummy tours {:?}", sn.dummies.keys().collect::<Vec<_>>())));
    }
    for (t, &vt) in ad.ref_to_type.iter().enumerate() {
        let tours: Vec<&Vec<model::base_types::NodeIdx>> = sn.vehicles.values().filter(|(x, _)| *x == vt).map(|(_, ns)| ns).collect();
        // allotment = the repo's own heuristic, read off the observed solution
        let mut allot: BTreeMap<usize, u64> = BTreeMap::new();
        let mut cover: BTreeMap<usize, u64> = BTreeMap::new();
        for ns in &tours {
            for n in ns.iter() {
                if let Some(&a) = ad.node_to_act.get(n) {
                    *cover.entry(a).or_insert(0) += 1;
                    if inst.acts[a].kind == ActKind::Maint {
                        *allot.entry(a).or_insert(0) += 1;
                    }
                }
            }
        }
        // coverage of the observed solution (every flow unit decoded into exactly one tour)
        for a in inst.service_acts().filter(|&a| inst.acts[a].vtype == Some(t)) {
            let k = cover.get(&a).copied().unwrap_or(0);
            if k < inst.served(a) {
                out.push(viol("C14", "C14.start_solution_undercovers", format!("{} needs {} vehicles, start solution gives {}", inst.acts[a].id, inst.served(a), k)));
            }
            if let Some(l) = inst.acts[a].limit() {
                if k > l {
                    out.push(viol("C14", "C14.start_solution_overcovers", format!("{} limited to {} vehicles, start solution gives {}", inst.acts[a].id, l, k)));
                }
            }
        }
        // circulation: per depot as many tours end as start
        let mut bal: BTreeMap<DepotRef, i64> = BTreeMap::new();
        let mut uses_overflow = false;
        for ns in &tours {
            if let (Some(a), Some(b)) = (ns.first().and_then(|n| ad.depot_ref_of_node(*n)), ns.last().and_then(|n| ad.depot_ref_of_node(*n))) {
                *bal.entry(a).or_insert(0) += 1;
                *bal.entry(b).or_insert(0) -= 1;
                if a == DepotRef::Overflow || b == DepotRef::Overflow {
                    uses_overflow = true;
                }
            }
        }
        if bal.values().any(|b| *b != 0) {
            out.push(viol("C14", "C14.not_a_circulation", format!("type {}: start/end depot balance of the decoded tours is {:?}", inst.types[t].id, bal)));
        }
        let observed_vehicles = tours.len() as i64;
        let observed_cost: u64 = tours.iter().map(|ns| recompute_tour(&ad, inst, ns).costs).sum();
        let opt = ref_optimum(inst, t, &allot, ad.conv.leg_seconds);
        digest_src.push_str(&format!("{}:{}:{};", t, observed_vehicles, observed_cost));
        match opt {
            None => {
                bump("skipped_allotment_infeasible_for_ref");
            }
            Some(o) => {
                bump("types_compared");
                if o.vehicles != observed_vehicles {
                    out.push(viol(
                        "C14",
                        if observed_vehicles > o.vehicles { "C14.more_vehicles_than_needed" } else { "C14.fewer_vehicles_than_reference_minimum" },
                        format!("type {}: start solution uses {} vehicles, the reference minimum is {}", inst.types[t].id, observed_vehicles, o.vehicles),
                    ));
                } else if !uses_overflow && !o.uses_overflow {
                    bump("costs_compared");
                    if observed_cost as i64 != o.cost {
                        out.push(viol(
                            "C14",
                            if observed_cost as i64 > o.cost { "C14.operating_cost_not_minimal" } else { "C14.cost_below_reference_minimum" },
                            format!("type {}: start solution with {} vehicles costs {}, the reference minimum is {}", inst.types[t].id, observed_vehicles, observed_cost, o.cost),
                        ));
                    }
                }
                let chained = tours.iter().any(|ns| ns.len() >= 4);
                if observed_vehicles >= 2 && chained {
                    nontrivial = true;
                }
            }
        }
    }
    (out, nontrivial, probes, digest_str(&digest_src))
}
