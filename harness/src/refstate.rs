//! Reference state of SIM-B: snapshots of a Schedule taken through public getters only, the
//! structural invariants (C10), the recomputation of every cached figure (C09) and the
//! executable reference semantics of tour edits (C12).

use crate::adapter::Adapter;
use crate::oracle_out::{viol, Violation};
use crate::refmodel::*;
use model::base_types::{Distance, NodeIdx, VehicleIdx, VehicleTypeIdx};
use solution::tour::Tour;
use solution::Schedule;
use std::collections::{BTreeMap, BTreeSet};

#[derive(Clone, Debug, PartialEq, Eq)]
pub struct Snap {
    pub vehicles: BTreeMap<VehicleIdx, (VehicleTypeIdx, Vec<NodeIdx>)>,
    pub dummies: BTreeMap<VehicleIdx, Vec<NodeIdx>>,
    pub formations: BTreeMap<NodeIdx, Vec<VehicleIdx>>,
    pub cycles: BTreeMap<VehicleTypeIdx, Vec<Vec<VehicleIdx>>>,
    pub cached: Vec<i64>,
}

pub fn snap(ad: &Adapter, s: &Schedule) -> Snap {
    let mut vehicles = BTreeMap::new();
    let mut cycles = BTreeMap::new();
    for &vt in &ad.ref_to_type {
        for v in s.vehicles_iter(vt) {
            let nodes: Vec<NodeIdx> = s.tour_of(v).map(|t| t.all_nodes_iter().collect()).unwrap_or_default();
            vehicles.insert(v, (vt, nodes));
        }
        cycles.insert(
            vt,
            s.next_day_transition_of(vt).cycles_iter().map(|c| c.iter().collect::<Vec<_>>()).collect::<Vec<_>>(),
        );
    }
    let mut dummies = BTreeMap::new();
    for d in s.dummy_iter() {
        dummies.insert(d, s.tour_of(d).map(|t| t.all_nodes_iter().collect()).unwrap_or_default());
    }
    let mut formations = BTreeMap::new();
    for &n in ad.node_to_act.keys() {
        formations.insert(n, s.train_formation_of(n).ids());
    }
    Snap {
        vehicles,
        dummies,
        formations,
        cycles,
        cached: ad.cached(s).vector(),
    }
}

impl Snap {
    pub fn canon(&self) -> String {
        format!("{:?}|{:?}|{:?}|{:?}|{:?}", self.vehicles, self.dummies, self.formations, self.cycles, self.cached)
    }
    /// non-depot nodes of a vehicle or dummy
    pub fn acts(&self, ad: &Adapter, v: VehicleIdx) -> Vec<NodeIdx> {
        let nodes = self.vehicles.get(&v).map(|x| &x.1).or_else(|| self.dummies.get(&v));
        nodes.map(|ns| ns.iter().copied().filter(|n| !ad.nw.node(*n).is_depot()).collect()).unwrap_or_default()
    }
}

pub fn reach(ad: &Adapter, inst: &RefInstance, a: NodeIdx, b: NodeIdx) -> bool {
    let (na, nb) = (ad.nw.node(a), ad.nw.node(b));
    if nb.is_start_depot() || na.is_end_depot() {
        return false;
    }
    if na.is_start_depot() || nb.is_end_depot() {
        return true;
    }
    inst.connectable(ad.node_to_act[&a], ad.node_to_act[&b])
}

// ------------------------------------------------------------------------------------------
// C10
// ------------------------------------------------------------------------------------------
pub fn check_c10(ad: &Adapter, inst: &RefInstance, s: &Schedule, sn: &Snap, ctx: &str, out: &mut Vec<Violation>) {
    let nw = &ad.nw;
    let mut push = |check: &str, msg: String| out.push(viol("C10", check, format!("{}: {}", ctx, msg)));
    let mut member: BTreeMap<NodeIdx, BTreeSet<VehicleIdx>> = BTreeMap::new();
    for (v, (vt, nodes)) in &sn.vehicles {
        if nodes.len() < 3 {
            push("C10.tour_too_short", format!("{} has {} nodes", v, nodes.len()));
            continue;
        }
        if !nw.node(nodes[0]).is_start_depot() {
            push("C10.no_start_depot", format!("{} starts with {}", v, nodes[0]));
        }
        if !nw.node(*nodes.last().unwrap()).is_end_depot() {
            push("C10.no_end_depot", format!("{} ends with {}", v, nodes.last().unwrap()));
        }
        let t = ad.type_to_ref[vt];
        for n in &nodes[1..nodes.len() - 1] {
            match ad.node_to_act.get(n) {
                None => push("C10.depot_in_the_middle", format!("{} has depot {} in the middle", v, n)),
                Some(&a) => {
                    if inst.acts[a].kind == ActKind::Service && inst.acts[a].vtype != Some(t) {
                        push("C10.foreign_type_trip", format!("{} of type {} serves {}", v, inst.types[t].id, inst.acts[a].id));
                    }
                    if !member.entry(*n).or_default().insert(*v) {
                        push("C10.node_twice_in_tour", format!("{} visits {} twice", v, inst.acts[a].id));
                    }
                }
            }
        }
        for w in nodes.windows(2) {
            if !reach(ad, inst, w[0], w[1]) {
                push("C10.not_connectable", format!("{}: {} cannot reach {}", v, nw.node(w[0]).id(), nw.node(w[1]).id()));
            }
        }
        let acts: Vec<usize> = nodes[1..nodes.len() - 1].iter().filter_map(|n| ad.node_to_act.get(n).copied()).collect();
        for w in acts.windows(2) {
            if inst.acts[w[0]].start >= inst.acts[w[1]].start {
                push("C10.not_chronological", format!("{}: {} before {}", v, inst.acts[w[0]].id, inst.acts[w[1]].id));
            }
        }
        if s.is_dummy(*v) || !s.is_vehicle(*v) || v.is_dummy() {
            push("C10.vehicle_listing", format!("{} listed as vehicle but is_vehicle/is_dummy disagree", v));
        }
    }
    for (d, nodes) in &sn.dummies {
        if nodes.is_empty() {
            push("C10.empty_dummy", format!("{} is empty", d));
        }
        // (what a dummy tour may contain is not part of the property statement: not checked)
        // Whether the nodes of a dummy tour are pairwise connectable is NOT checked: the statement
        // speaks of vehicle tours (depot to depot), and Tour::new_dummy legitimately drops the
        // maintenance slots of a removed path, which can leave two service trips that were only
        // connected through the slot (found as a false alarm of an earlier version of this check).
        if !s.is_dummy(*d) || s.is_vehicle(*d) || !d.is_dummy() {
            push("C10.dummy_listing", format!("{} listed as dummy but is_dummy/is_vehicle disagree", d));
        }
    }
    // formations <=> tours
    for (n, f) in &sn.formations {
        let a = ad.node_to_act[n];
        let fs: BTreeSet<VehicleIdx> = f.iter().copied().collect();
        if fs.len() != f.len() {
            push("C10.formation_duplicate", format!("formation of {} lists a vehicle twice: {:?}", inst.acts[a].id, f));
        }
        let want = member.get(n).cloned().unwrap_or_default();
        if fs != want {
            push(
                "C10.formation_vs_tours",
                format!("formation of {} is {:?} but the tours containing it belong to {:?}", inst.acts[a].id, f, want),
            );
        }
        if let Some(l) = inst.acts[a].limit() {
            if f.len() as u64 > l {
                push(
                    if inst.acts[a].kind == ActKind::Maint { "C10.track_limit" } else { "C10.formation_limit" },
                    format!("{} has {} vehicles, limit {}", inst.acts[a].id, f.len(), l),
                );
            }
        }
    }
    // depot limits (real depots only; defaulted depots are unlimited)
    if !inst.depots_defaulted {
        let mut per: BTreeMap<(usize, usize), u64> = BTreeMap::new();
        for (_, (vt, nodes)) in &sn.vehicles {
            if let Some(DepotRef::Real(d)) = nodes.first().and_then(|n| ad.depot_ref_of_node(*n)) {
                *per.entry((d, ad.type_to_ref[vt])).or_insert(0) += 1;
            }
        }
        for (d, dep) in inst.depots.iter().enumerate() {
            let total: u64 = per.iter().filter(|((dd, _), _)| *dd == d).map(|(_, n)| *n).sum();
            if total > dep.total {
                push("C10.depot_total", format!("{} vehicles start at {} (capacity {})", total, dep.id, dep.total));
            }
            for t in 0..inst.types.len() {
                let n = per.get(&(d, t)).copied().unwrap_or(0);
                if n > dep.cap_for(t) {
                    push("C10.depot_type", format!("{} vehicles of type {} start at {} (allowed {})", n, inst.types[t].id, dep.id, dep.cap_for(t)));
                }
            }
        }
    }
    // listings
    let mut from_tours: BTreeMap<VehicleTypeIdx, Vec<VehicleIdx>> = BTreeMap::new();
    for (v, _) in s.get_tours().iter() {
        match s.vehicle_type_of(*v) {
            Ok(vt) => from_tours.entry(vt).or_default().push(*v),
            Err(_) => push("C10.tour_without_vehicle", format!("stored tour of {} has no vehicle", v)),
        }
    }
    let mut total = 0usize;
    for &vt in &ad.ref_to_type {
        let listed: Vec<VehicleIdx> = s.vehicles_iter(vt).collect();
        total += listed.len();
        if listed.windows(2).any(|w| w[0] >= w[1]) {
            push("C10.vehicle_listing_unsorted", format!("vehicles of type {} listed as {:?}", vt, listed));
        }
        let mut stored = from_tours.get(&vt).cloned().unwrap_or_default();
        stored.sort();
        let mut l2 = listed.clone();
        l2.sort();
        if l2 != stored {
            push("C10.vehicle_listing_vs_tours", format!("type {}: listed {:?}, stored tours {:?}", vt, listed, stored));
        }
    }
    if total != s.number_of_vehicles() {
        push("C10.vehicle_count", format!("number_of_vehicles {} but {} listed", s.number_of_vehicles(), total));
    }
    let dl: Vec<VehicleIdx> = s.dummy_iter().collect();
    if dl.windows(2).any(|w| w[0] >= w[1]) {
        push("C10.dummy_listing_unsorted", format!("dummies listed as {:?}", dl));
    }
    if dl.len() != s.number_of_dummy_tours() {
        push("C10.dummy_count", format!("number_of_dummy_tours {} but {} listed", s.number_of_dummy_tours(), dl.len()));
    }
    // rotation cycles partition the real vehicles of each type
    for &vt in &ad.ref_to_type {
        let mut inc: Vec<VehicleIdx> = sn.cycles[&vt].iter().flatten().copied().collect();
        inc.sort();
        let want: Vec<VehicleIdx> = sn.vehicles.iter().filter(|(_, (t, _))| *t == vt).map(|(v, _)| *v).collect();
        if inc != want {
            push("C10.cycles_partition", format!("type {}: cycles hold {:?}, vehicles are {:?}", vt, inc, want));
            continue;
        }
        let tr = s.next_day_transition_of(vt);
        for c in &sn.cycles[&vt] {
            for i in 0..c.len() {
                let want_succ = c[(i + 1) % c.len()];
                match crate::seams::guarded(|| tr.get_successor_of(c[i])) {
                    Ok(x) if x == want_succ => {}
                    Ok(x) => push("C10.successor", format!("successor of {} is {} but the cycle says {}", c[i], x, want_succ)),
                    Err(p) => push("C10.successor_lookup_panics", format!("get_successor_of({}) panicked: {}", c[i], p)),
                }
            }
        }
    }
}

// ------------------------------------------------------------------------------------------
// C09
// ------------------------------------------------------------------------------------------

/// REF recomputation of one tour given as node list (real: with depots; dummy: without)
pub struct TourFigures {
    pub service: u64,
    pub dead_head: Option<u64>,
    pub useful: u64,
    pub costs: u64,
    pub visits: bool,
}

pub fn recompute_tour(ad: &Adapter, inst: &RefInstance, nodes: &[NodeIdx]) -> TourFigures {
    let c = &inst.costs;
    let mut f = TourFigures {
        service: 0,
        dead_head: Some(0),
        useful: 0,
        costs: 0,
        visits: false,
    };
    // location of a node's end / start; None = nowhere (overflow depot)
    let end_loc = |n: NodeIdx| -> Option<usize> {
        match ad.node_to_act.get(&n) {
            Some(&a) => Some(inst.acts[a].to),
            None => match ad.depot_ref_of_node(n) {
                Some(DepotRef::Real(d)) => Some(inst.depots[d].loc),
                _ => None,
            },
        }
    };
    let start_loc = |n: NodeIdx| -> Option<usize> {
        match ad.node_to_act.get(&n) {
            Some(&a) => Some(inst.acts[a].from),
            None => match ad.depot_ref_of_node(n) {
                Some(DepotRef::Real(d)) => Some(inst.depots[d].loc),
                _ => None,
            },
        }
    };
    for n in nodes {
        if let Some(&a) = ad.node_to_act.get(n) {
            let act = &inst.acts[a];
            let dur = (act.end - act.start) as u64;
            f.useful += dur;
            f.service += act.dist;
            match act.kind {
                ActKind::Service => f.costs += dur * c.service,
                ActKind::Maint => {
                    f.costs += dur * c.maintenance;
                    f.visits = true;
                }
            }
        }
    }
    for w in nodes.windows(2) {
        match (end_loc(w[0]), start_loc(w[1])) {
            (Some(x), Some(y)) => {
                if let Some(d) = f.dead_head.as_mut() {
                    *d += inst.dd[x][y];
                }
                let travel = inst.tt[x][y];
                f.costs += travel * c.dead_head;
                if let (Some(&a), Some(&b)) = (ad.node_to_act.get(&w[0]), ad.node_to_act.get(&w[1])) {
                    let gap = (inst.acts[b].start - inst.acts[a].end).max(0) as u64;
                    f.costs += gap.saturating_sub(travel) * c.idle;
                }
            }
            _ => {
                f.dead_head = None;
                f.costs += ad.conv.leg_seconds * c.dead_head;
            }
        }
    }
    f
}

fn cmp_tour(ad: &Adapter, inst: &RefInstance, who: &str, tour: &Tour, nodes: &[NodeIdx], ctx: &str, out: &mut Vec<Violation>) -> u64 {
    let f = recompute_tour(ad, inst, nodes);
    let overflow = if f.dead_head.is_none() { "_overflow" } else { "" };
    let mut push = |check: String, msg: String| out.push(viol("C09", &check, format!("{}: {} {}", ctx, who, msg)));
    match (tour.service_distance(), f.service) {
        (Distance::Distance(d), s) if d == s => {}
        (d, s) => push(format!("C09.tour_service_distance{}", overflow), format!("service distance cached {} vs recomputed {} m", d, s)),
    }
    match (tour.dead_head_distance(), f.dead_head) {
        (Distance::Distance(d), Some(s)) if d == s => {}
        (Distance::Infinity, None) => {}
        (d, s) => push(format!("C09.tour_dead_head_distance{}", overflow), format!("dead-head distance cached {} vs recomputed {:?} m", d, s)),
    }
    if tour.useful_duration().in_sec().ok() != Some(f.useful) {
        push(format!("C09.tour_useful_duration{}", overflow), format!("useful duration cached {} vs recomputed {} s", tour.useful_duration(), f.useful));
    }
    if tour.costs() != f.costs {
        push(format!("C09.tour_costs{}", overflow), format!("costs cached {} vs recomputed {}", tour.costs(), f.costs));
    }
    if tour.visits_maintenance() != f.visits {
        push(format!("C09.tour_visits_maintenance{}", overflow), format!("visits_maintenance cached {} vs recomputed {}", tour.visits_maintenance(), f.visits));
    }
    f.costs
}

pub fn check_c09(ad: &Adapter, inst: &RefInstance, s: &Schedule, sn: &Snap, ctx: &str, fresh_reading: bool, out: &mut Vec<Violation>) {
    let nw = &ad.nw;
    let mut total_costs = inst.n_segments * inst.costs.staff;
    for (v, (vt, nodes)) in &sn.vehicles {
        if let Ok(tour) = s.tour_of(*v) {
            total_costs += cmp_tour(ad, inst, &v.to_string(), tour, nodes, ctx, out);
            // reading (a): the repo's own from-scratch constructor
            if fresh_reading && nodes.len() >= 3 {
                let fresh = crate::seams::guarded(|| Schedule::empty(nw.clone()).spawn_vehicle_for_path(*vt, nodes.clone()));
                if let Ok(Ok((s2, v2))) = fresh {
                    if let Ok(t2) = s2.tour_of(v2) {
                        let same_nodes = t2.all_nodes_iter().collect::<Vec<_>>() == *nodes;
                        if same_nodes
                            && (t2.costs() != tour.costs()
                                || t2.dead_head_distance() != tour.dead_head_distance()
                                || t2.service_distance() != tour.service_distance()
                                || t2.useful_duration() != tour.useful_duration()
                                || t2.visits_maintenance() != tour.visits_maintenance())
                        {
                            out.push(viol(
                                "C09",
                                "C09.tour_vs_fresh_construction",
                                format!(
                                    "{}: {} cached (costs {}, dead-head {}, service {}, useful {}, maint {}) but the same node list built from scratch has ({}, {}, {}, {}, {})",
                                    ctx,
                                    v,
                                    tour.costs(),
                                    tour.dead_head_distance(),
                                    tour.service_distance(),
                                    tour.useful_duration(),
                                    tour.visits_maintenance(),
                                    t2.costs(),
                                    t2.dead_head_distance(),
                                    t2.service_distance(),
                                    t2.useful_duration(),
                                    t2.visits_maintenance()
                                ),
                            ));
                        }
                    }
                }
            }
        }
    }
    for (d, nodes) in &sn.dummies {
        if let Ok(tour) = s.tour_of(*d) {
            cmp_tour(ad, inst, &d.to_string(), tour, nodes, ctx, out);
        }
    }
    let mut push = |check: &str, msg: String| out.push(viol("C09", check, format!("{}: {}", ctx, msg)));
    if s.costs() != total_costs {
        push("C09.schedule_costs", format!("schedule costs cached {} vs recomputed {}", s.costs(), total_costs));
    }
    // unserved from formations
    let mut uns = (0u64, 0u64);
    for (n, f) in &sn.formations {
        let a = ad.node_to_act[n];
        if inst.acts[a].kind == ActKind::Service {
            let t = &inst.types[inst.acts[a].vtype.unwrap()];
            let k = f.len() as u64;
            uns.0 += inst.acts[a].passengers.saturating_sub(k * t.capacity);
            uns.1 += inst.acts[a].seated.saturating_sub(k * t.seats);
        }
    }
    let cu = s.unserved_passengers();
    if (cu.0 as u64, cu.1 as u64) != uns {
        push("C09.schedule_unserved", format!("unserved cached {:?} vs recomputed {:?}", cu, uns));
    }
    // maintenance violation from cycles and tours
    let vdata: BTreeMap<VehicleIdx, VehData> = sn.vehicles.keys().filter_map(|v| ad.vehicle_data(s, *v).ok().map(|d| (*v, d))).collect();
    let mut sd = SchedData::default();
    sd.vehicles = vdata.values().cloned().collect();
    let mut violation = 0i64;
    let mut ok = true;
    for (vt, cycles) in &sn.cycles {
        let tr = s.next_day_transition_of(*vt);
        let mut tv = 0i64;
        let mut tc = 0i64;
        for (ci, c) in cycles.iter().enumerate() {
            let ids: Vec<String> = c.iter().map(|v| v.to_string()).collect();
            match inst.cycle_counter(&sd, &ids, Some(ad.conv)) {
                Ok(Some(x)) => {
                    violation += x.max(0);
                    tv += x.max(0);
                    tc += x;
                    let cached = tr.cycles_iter().nth(ci).map(|c| c.maintenance_counter());
                    if cached != Some(x) {
                        out.push(viol("C15", "C15.schedule_cycle_counter", format!("{}: type {} cycle {:?}: counter cached {:?} vs recomputed {}", ctx, vt, ids, cached, x)));
                    }
                }
                _ => ok = false,
            }
        }
        if ok && (tr.maintenance_violation() != tv || tr.maintenance_counter() != tc) {
            out.push(viol(
                "C15",
                "C15.schedule_transition_totals",
                format!("{}: type {}: totals cached ({}, {}) vs recomputed ({}, {})", ctx, vt, tr.maintenance_violation(), tr.maintenance_counter(), tv, tc),
            ));
        }
    }
    let mut push = |check: &str, msg: String| out.push(viol("C09", check, format!("{}: {}", ctx, msg)));
    if ok && s.maintenance_violation() != violation {
        push("C09.schedule_maintenance_violation", format!("maintenance violation cached {} vs recomputed {}", s.maintenance_violation(), violation));
    }
    // spawn counts and balances
    for d in nw.depots_iter() {
        let mut tot = 0u32;
        for &vt in &ad.ref_to_type {
            let starts = sn.vehicles.values().filter(|(t, ns)| *t == vt && ns.first().map(|n| nw.node(*n).is_depot() && nw.get_depot_idx(*n) == d).unwrap_or(false)).count() as u32;
            let ends = sn.vehicles.values().filter(|(t, ns)| *t == vt && ns.last().map(|n| nw.node(*n).is_depot() && nw.get_depot_idx(*n) == d).unwrap_or(false)).count() as u32;
            tot += starts;
            if s.number_of_vehicles_of_same_type_spawned_at(d, vt) != starts {
                push("C09.spawn_count", format!("depot {} type {}: spawned cached {} vs recount {}", nw.get_depot(d).id(), vt, s.number_of_vehicles_of_same_type_spawned_at(d, vt), starts));
            }
            if s.depot_balance(d, vt) != starts as i32 - ends as i32 {
                push("C09.depot_balance", format!("depot {} type {}: balance cached {} vs recount {}", nw.get_depot(d).id(), vt, s.depot_balance(d, vt), starts as i32 - ends as i32));
            }
        }
        if s.number_of_vehicles_spawned_at(d) != tot {
            push("C09.spawn_count_total", format!("depot {}: spawned cached {} vs recount {}", nw.get_depot(d).id(), s.number_of_vehicles_spawned_at(d), tot));
        }
    }
}

// ------------------------------------------------------------------------------------------
// C12 reference semantics
// ------------------------------------------------------------------------------------------

/// insert(T, P): longest prefix whose last node reaches P, P, longest suffix P reaches.
/// Returns (new tour, dropped nodes incl. replaced depots).
pub fn ref_insert(ad: &Adapter, inst: &RefInstance, tour: &[NodeIdx], is_dummy: bool, path: &[NodeIdx]) -> (Vec<NodeIdx>, Vec<NodeIdx>) {
    let nw = &ad.nw;
    let mut p: Vec<NodeIdx> = path.to_vec();
    if is_dummy {
        if p.first().map(|n| nw.node(*n).is_depot()).unwrap_or(false) {
            p.remove(0);
        }
        if p.last().map(|n| nw.node(*n).is_depot()).unwrap_or(false) {
            p.pop();
        }
    }
    if p.is_empty() {
        return (tour.to_vec(), vec![]);
    }
    let first = p[0];
    let last = *p.last().unwrap();
    // prefix = tour[..cut_a]
    let cut_a = if nw.node(first).is_depot() {
        0
    } else {
        match (0..tour.len()).rev().find(|&i| reach(ad, inst, tour[i], first)) {
            Some(i) => i + 1,
            None => 0,
        }
    };
    // suffix = tour[cut_b..]
    let cut_b = if nw.node(last).is_depot() {
        tour.len()
    } else {
        match (0..tour.len()).find(|&i| reach(ad, inst, last, tour[i])) {
            Some(i) => i,
            None => tour.len(),
        }
    };
    let cut_b = cut_b.max(cut_a);
    let mut new_tour = tour[..cut_a].to_vec();
    new_tour.extend_from_slice(&p);
    new_tour.extend_from_slice(&tour[cut_b..]);
    (new_tour, tour[cut_a..cut_b].to_vec())
}

#[derive(Debug, PartialEq, Eq)]
pub enum RefRemove {
    /// (remaining tour or None if nothing but depots remains, removed nodes)
    Ok(Option<Vec<NodeIdx>>, Vec<NodeIdx>),
    Refuse(&'static str),
}

pub fn ref_remove(ad: &Adapter, inst: &RefInstance, tour: &[NodeIdx], is_dummy: bool, a: NodeIdx, b: NodeIdx) -> RefRemove {
    let nw = &ad.nw;
    let (pa, pb) = match (tour.iter().position(|n| *n == a), tour.iter().position(|n| *n == b)) {
        (Some(x), Some(y)) => (x, y),
        _ => return RefRemove::Refuse("segment end not on the tour"),
    };
    if pa > pb {
        return RefRemove::Refuse("segment start after end");
    }
    let mut rest: Vec<NodeIdx> = tour[..pa].to_vec();
    rest.extend_from_slice(&tour[pb + 1..]);
    let removed = tour[pa..=pb].to_vec();
    let rest_non_depots = rest.iter().filter(|n| !nw.node(**n).is_depot()).count();
    if !is_dummy && rest_non_depots > 0 {
        let has_start = rest.first().map(|n| nw.node(*n).is_start_depot()).unwrap_or(false);
        let has_end = rest.last().map(|n| nw.node(*n).is_end_depot()).unwrap_or(false);
        if !has_start || !has_end {
            return RefRemove::Refuse("would strand a depot");
        }
    }
    if pa > 0 && pb + 1 < tour.len() && !reach(ad, inst, tour[pa - 1], tour[pb + 1]) {
        return RefRemove::Refuse("gap not connectable");
    }
    if rest_non_depots == 0 {
        RefRemove::Ok(None, removed)
    } else {
        RefRemove::Ok(Some(rest), removed)
    }
}

pub fn non_depots(ad: &Adapter, ns: &[NodeIdx]) -> Vec<NodeIdx> {
    ns.iter().copied().filter(|n| !ad.nw.node(*n).is_depot()).collect()
}

/// consecutive nodes pairwise connectable by the reference rule
pub fn is_path(ad: &Adapter, inst: &RefInstance, ns: &[NodeIdx]) -> bool {
    ns.windows(2).all(|w| reach(ad, inst, w[0], w[1]))
}
