//! Seams the simulators own:
//!  * hash-seed source: the libc symbol `getrandom` is interposed by this binary, so std's
//!    `RandomState` keys (fetched once per thread) become a pure function of the run key;
//!  * thread/pool: every simulated run executes on a fresh OS thread inside a fresh rayon pool
//!    of `w` threads (w = 1 is the replay configuration);
//!  * stdout: worker processes redirect fd 1 to /dev/null and report on a saved descriptor;
//!  * panics: a process-wide hook records message + location of the first panic of a run.

use std::any::Any;
use std::panic::{catch_unwind, AssertUnwindSafe};
use std::sync::atomic::{AtomicU64, Ordering};
use std::sync::Mutex;

static RUN_KEY: AtomicU64 = AtomicU64::new(0x5EED_0000_0000_0001);
static GETRANDOM_CALLS: AtomicU64 = AtomicU64::new(0);

/// Interposed libc `getrandom`. std (and the `getrandom` crate) resolve this symbol at link
/// time from the executable first, so no LD_PRELOAD is needed. The answer is a pure function
/// of the process-global run key: every thread of a run sees the same bytes, hence the same
/// `RandomState` base keys, independent of thread creation order.
#[no_mangle]
pub unsafe extern "C" fn getrandom(
    buf: *mut libc::c_void,
    buflen: libc::size_t,
    _flags: libc::c_uint,
) -> libc::ssize_t {
    GETRANDOM_CALLS.fetch_add(1, Ordering::Relaxed);
    let mut st = RUN_KEY.load(Ordering::SeqCst);
    let out = buf as *mut u8;
    let mut i = 0usize;
    while i < buflen {
        let x = crate::rng::splitmix64(&mut st).to_le_bytes();
        for b in x.iter() {
            if i >= buflen {
                break;
            }
            *out.add(i) = *b;
            i += 1;
        }
    }
    buflen as libc::ssize_t
}

pub fn getrandom_calls() -> u64 {
    GETRANDOM_CALLS.load(Ordering::Relaxed)
}

pub fn set_run_key(k: u64) {
    RUN_KEY.store(k, Ordering::SeqCst);
}

static LAST_PANIC: Mutex<Option<String>> = Mutex::new(None);

pub fn install_panic_hook() {
    std::panic::set_hook(Box::new(|info| {
        let loc = info
            .location()
            .map(|l| format!("{}:{}", l.file(), l.line()))
            .unwrap_or_else(|| "?".to_string());
        let msg = if let Some(s) = info.payload().downcast_ref::<&str>() {
            s.to_string()
        } else if let Some(s) = info.payload().downcast_ref::<String>() {
            s.clone()
        } else {
            "<non-string panic payload>".to_string()
        };
        let mut g = LAST_PANIC.lock().unwrap_or_else(|e| e.into_inner());
        if g.is_none() {
            *g = Some(format!("{} @ {}", msg, loc));
        }
    }));
}

pub fn take_last_panic() -> Option<String> {
    LAST_PANIC.lock().unwrap_or_else(|e| e.into_inner()).take()
}

pub fn clear_last_panic() {
    let _ = take_last_panic();
}

fn payload_to_string(p: Box<dyn Any + Send>) -> String {
    if let Some(s) = p.downcast_ref::<&str>() {
        s.to_string()
    } else if let Some(s) = p.downcast_ref::<String>() {
        s.clone()
    } else {
        "<non-string panic payload>".to_string()
    }
}

/// normalise a panic description so that it identifies the *site* (file:line + first words),
/// not run-specific values
pub fn panic_signature(desc: &str) -> String {
    // desc = "<msg> @ <file>:<line>"
    let (msg, loc) = match desc.rfind(" @ ") {
        Some(p) => (&desc[..p], &desc[p + 3..]),
        None => (desc, "?"),
    };
    let loc = loc
        .rsplit_once("/src/")
        .map(|(a, b)| {
            let krate = a.rsplit('/').next().unwrap_or("");
            format!("{}/src/{}", krate, b)
        })
        .unwrap_or_else(|| loc.to_string());
    let words: Vec<&str> = msg
        .split(|c: char| !c.is_alphabetic())
        .filter(|w| w.len() > 1)
        .take(6)
        .collect();
    format!("{}|{}", loc, words.join("_"))
}

/// Execute `f` as one simulated run: fresh thread (fresh hash keys derived from `run_key`),
/// fresh rayon pool with `workers` threads, panics caught.
pub fn run_isolated<T, F>(run_key: u64, workers: usize, f: F) -> Result<T, String>
where
    T: Send + 'static,
    F: FnOnce() -> T + Send + 'static,
{
    set_run_key(run_key);
    clear_last_panic();
    // Thread creation can fail transiently (EAGAIN) on a loaded machine. That is the harness's
    // problem, never the system under test's: retry, and if it keeps failing end the worker
    // process with a harness error instead of reporting a panic of the run.
    let mut f_opt = Some(f);
    let mut attempt = 0;
    let handle = loop {
        let f = f_opt.take().unwrap();
        let shared = std::sync::Arc::new(std::sync::Mutex::new(Some(f)));
        let s2 = shared.clone();
        let r = std::thread::Builder::new().name("sim-run".to_string()).stack_size(256 << 20).spawn(move || {
            let f = s2.lock().unwrap().take().unwrap();
            let mut tries = 0;
            let pool = loop {
                match rayon::ThreadPoolBuilder::new().num_threads(workers.max(1)).stack_size(64 << 20).build() {
                    Ok(p) => break p,
                    Err(e) => {
                        tries += 1;
                        if tries > 50 {
                            eprintln!("HARNESS: cannot build rayon pool: {}", e);
                            std::process::exit(3);
                        }
                        std::thread::sleep(std::time::Duration::from_millis(100));
                    }
                }
            };
            let r = catch_unwind(AssertUnwindSafe(|| pool.install(f)));
            drop(pool);
            r
        });
        match r {
            Ok(h) => break h,
            Err(e) => {
                attempt += 1;
                if attempt > 50 {
                    eprintln!("HARNESS: cannot spawn run thread: {}", e);
                    std::process::exit(3);
                }
                std::thread::sleep(std::time::Duration::from_millis(100));
                f_opt = shared.lock().unwrap().take();
            }
        }
    };
    match handle.join() {
        Ok(Ok(v)) => {
            clear_last_panic();
            Ok(v)
        }
        Ok(Err(p)) => {
            let fallback = payload_to_string(p);
            Err(take_last_panic().unwrap_or(fallback))
        }
        Err(p) => {
            let fallback = payload_to_string(p);
            Err(take_last_panic().unwrap_or(fallback))
        }
    }
}

/// catch a panic of repo code on the current thread (used op-by-op by SIM-B)
pub fn guarded<T, F: FnOnce() -> T>(f: F) -> Result<T, String> {
    clear_last_panic();
    match catch_unwind(AssertUnwindSafe(f)) {
        Ok(v) => Ok(v),
        Err(p) => {
            let fallback = payload_to_string(p);
            Err(take_last_panic().unwrap_or(fallback))
        }
    }
}

/// Redirect fd 1 to /dev/null; returns a File on the original stdout for reporting.
pub fn gag_stdout() -> std::fs::File {
    use std::os::unix::io::FromRawFd;
    unsafe {
        let saved = libc::dup(1);
        assert!(saved >= 0);
        let devnull = libc::open(b"/dev/null\0".as_ptr() as *const libc::c_char, libc::O_WRONLY);
        assert!(devnull >= 0);
        libc::dup2(devnull, 1);
        libc::close(devnull);
        std::fs::File::from_raw_fd(saved)
    }
}

/// CPU seconds (user+system) consumed so far by process `pid`, from /proc.
pub fn proc_cpu_seconds(pid: u32) -> Option<f64> {
    let s = std::fs::read_to_string(format!("/proc/{}/stat", pid)).ok()?;
    let rp = s.rfind(')')?;
    let fields: Vec<&str> = s[rp + 2..].split_whitespace().collect();
    // after ") " fields start with state (index 0); utime = index 11, stime = index 12
    let ut: f64 = fields.get(11)?.parse().ok()?;
    let stt: f64 = fields.get(12)?.parse().ok()?;
    let hz = unsafe { libc::sysconf(libc::_SC_CLK_TCK) } as f64;
    Some((ut + stt) / hz)
}

/// spawn a thread, retrying transient failures; gives up with a harness exit (never a panic that
/// could be mistaken for a failure of the system under test)
pub fn spawn_retry<F: FnOnce() + Send + 'static>(name: &str, stack: usize, f: F) -> std::thread::JoinHandle<()> {
    let shared = std::sync::Arc::new(std::sync::Mutex::new(Some(f)));
    for _ in 0..60 {
        let s2 = shared.clone();
        let r = std::thread::Builder::new().name(name.to_string()).stack_size(stack).spawn(move || {
            let f = s2.lock().unwrap().take();
            if let Some(f) = f {
                f()
            }
        });
        match r {
            Ok(h) => return h,
            Err(_) => std::thread::sleep(std::time::Duration::from_millis(100)),
        }
    }
    eprintln!("HARNESS: cannot spawn thread {}", name);
    std::process::exit(3);
}
