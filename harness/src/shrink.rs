//! Minimisation before reporting: greedy delta-debugging over the case JSON. A reduction is
//! kept only if the same (property, check id) still fires; candidates that REF rejects are
//! never executed.

use crate::check::{exec_in, worker_bin};
use crate::driver::Pool;
use crate::refmodel::RefInstance;
use serde_json::{json, Value};

fn arr_len(v: &Value, path: &[&str]) -> usize {
    let mut cur = v;
    for p in path {
        cur = &cur[*p];
    }
    cur.as_array().map(|a| a.len()).unwrap_or(0)
}

fn remove_at(v: &mut Value, path: &[&str], idx: usize) -> bool {
    let mut cur = v;
    for p in path {
        cur = &mut cur[*p];
    }
    match cur.as_array_mut() {
        Some(a) if idx < a.len() => {
            a.remove(idx);
            true
        }
        _ => false,
    }
}

/// candidate reductions of an instance, most aggressive first
pub fn instance_candidates(inst: &Value) -> Vec<Value> {
    let mut out = vec![];
    // drop a whole departure (an instance keeps at least one)
    for i in (0..arr_len(inst, &["departures"])).rev() {
        if arr_len(inst, &["departures"]) <= 1 {
            break;
        }
        let mut c = inst.clone();
        remove_at(&mut c, &["departures"], i);
        out.push(c);
    }
    // drop the last / first segment of a departure
    for i in 0..arr_len(inst, &["departures"]) {
        let n = inst["departures"][i]["segments"].as_array().map(|a| a.len()).unwrap_or(0);
        if n >= 2 {
            for k in [n - 1, 0] {
                let mut c = inst.clone();
                c["departures"][i]["segments"].as_array_mut().unwrap().remove(k);
                out.push(c);
            }
        }
    }
    for i in (0..arr_len(inst, &["maintenanceSlots"])).rev() {
        let mut c = inst.clone();
        remove_at(&mut c, &["maintenanceSlots"], i);
        out.push(c);
    }
    for i in (0..arr_len(inst, &["depots"])).rev() {
        let mut c = inst.clone();
        remove_at(&mut c, &["depots"], i);
        out.push(c);
    }
    // unused routes
    for i in (0..arr_len(inst, &["routes"])).rev() {
        let id = inst["routes"][i]["id"].clone();
        let used = inst["departures"].as_array().map(|a| a.iter().any(|d| d["route"] == id)).unwrap_or(false);
        if !used {
            let mut c = inst.clone();
            remove_at(&mut c, &["routes"], i);
            out.push(c);
        }
    }
    // unused trailing route segments
    for i in 0..arr_len(inst, &["routes"]) {
        let n = inst["routes"][i]["segments"].as_array().map(|a| a.len()).unwrap_or(0);
        if n >= 2 {
            for k in [n - 1, 0] {
                let sid = inst["routes"][i]["segments"][k]["id"].clone();
                let used = inst["departures"]
                    .as_array()
                    .map(|a| a.iter().any(|d| d["segments"].as_array().map(|s| s.iter().any(|x| x["routeSegment"] == sid)).unwrap_or(false)))
                    .unwrap_or(false);
                if !used {
                    let mut c = inst.clone();
                    c["routes"][i]["segments"].as_array_mut().unwrap().remove(k);
                    out.push(c);
                }
            }
        }
    }
    // unused vehicle types
    for i in (0..arr_len(inst, &["vehicleTypes"])).rev() {
        let id = inst["vehicleTypes"][i]["id"].clone();
        let used = inst["routes"].as_array().map(|a| a.iter().any(|r| r["vehicleType"] == id)).unwrap_or(false);
        if !used && arr_len(inst, &["vehicleTypes"]) > 1 {
            let mut c = inst.clone();
            remove_at(&mut c, &["vehicleTypes"], i);
            if let Some(ds) = c["depots"].as_array_mut() {
                for d in ds {
                    if let Some(a) = d["allowedTypes"].as_array_mut() {
                        a.retain(|x| x["vehicleType"] != id);
                    }
                }
            }
            out.push(c);
        }
    }
    // unused locations
    for i in (0..arr_len(inst, &["locations"])).rev() {
        let id = inst["locations"][i]["id"].clone();
        let s = id.as_str().unwrap_or("").to_string();
        let used_r = inst["routes"]
            .as_array()
            .map(|a| a.iter().any(|r| r["segments"].as_array().map(|x| x.iter().any(|g| g["origin"] == id || g["destination"] == id)).unwrap_or(false)))
            .unwrap_or(false);
        let used_d = inst["depots"].as_array().map(|a| a.iter().any(|d| d["location"] == id)).unwrap_or(false);
        let used_m = inst["maintenanceSlots"].as_array().map(|a| a.iter().any(|d| d["location"] == id)).unwrap_or(false);
        if !used_r && !used_d && !used_m && arr_len(inst, &["locations"]) > 1 {
            let mut c = inst.clone();
            remove_at(&mut c, &["locations"], i);
            let pos = c["deadHeadTrips"]["indices"].as_array().and_then(|a| a.iter().position(|x| x.as_str() == Some(&s)));
            if let Some(p) = pos {
                c["deadHeadTrips"]["indices"].as_array_mut().unwrap().remove(p);
                for key in ["durations", "distances"] {
                    let m = c["deadHeadTrips"][key].as_array_mut().unwrap();
                    m.remove(p);
                    for row in m.iter_mut() {
                        row.as_array_mut().unwrap().remove(p);
                    }
                }
            }
            out.push(c);
        }
    }
    // simplify numbers
    for i in 0..arr_len(inst, &["departures"]) {
        for k in 0..inst["departures"][i]["segments"].as_array().map(|a| a.len()).unwrap_or(0) {
            let seg = &inst["departures"][i]["segments"][k];
            if seg["passengers"] != json!(1) || seg["seated"] != json!(0) {
                let mut c = inst.clone();
                c["departures"][i]["segments"][k]["passengers"] = json!(1);
                c["departures"][i]["segments"][k]["seated"] = json!(0);
                out.push(c);
            }
        }
    }
    for key in ["staff", "serviceTrip", "maintenance", "deadHeadTrip", "idle"] {
        let cur = &inst["parameters"]["costs"][key];
        if cur.is_u64() && cur != &json!(0) && cur != &json!(1) {
            for v in [0, 1] {
                let mut c = inst.clone();
                c["parameters"]["costs"][key] = json!(v);
                out.push(c);
            }
        }
    }
    for key in ["minimalDuration", "deadHeadTripDuration"] {
        if inst["parameters"]["shunting"][key] != json!(0) {
            let mut c = inst.clone();
            c["parameters"]["shunting"][key] = json!(0);
            out.push(c);
        }
    }
    // dead-head matrix to a constant
    {
        let mut c = inst.clone();
        let mut changed = false;
        for key in ["durations", "distances"] {
            if let Some(m) = c["deadHeadTrips"][key].as_array_mut() {
                for (i, row) in m.iter_mut().enumerate() {
                    for (j, x) in row.as_array_mut().unwrap().iter_mut().enumerate() {
                        let want = if i == j { json!(0) } else if key == "durations" { json!(600) } else { json!(1000) };
                        if *x != want {
                            *x = want;
                            changed = true;
                        }
                    }
                }
            }
        }
        if changed {
            out.push(c);
        }
    }
    for i in 0..arr_len(inst, &["depots"]) {
        if inst["depots"][i]["allowedTypes"].as_array().map(|a| a.len()).unwrap_or(0) > 1 {
            for k in 0..inst["depots"][i]["allowedTypes"].as_array().unwrap().len() {
                let mut c = inst.clone();
                c["depots"][i]["allowedTypes"].as_array_mut().unwrap().remove(k);
                out.push(c);
            }
        }
    }
    out
}

pub fn case_candidates(case: &Value) -> Vec<Value> {
    let mut out = vec![];
    // process history first: without the prelude, then with a smaller one
    if case.get("prelude").map(|p| p.is_object()).unwrap_or(false) {
        let mut c = case.clone();
        c.as_object_mut().unwrap().remove("prelude");
        out.push(c);
    }
    match case["sim"].as_str().unwrap_or("") {
        "a" => {
            for i in instance_candidates(&case["instance"]) {
                if RefInstance::parse(&i).is_ok() {
                    let mut c = case.clone();
                    c["instance"] = i;
                    out.push(c);
                }
            }
            if case["workers"] != json!(1) {
                let mut c = case.clone();
                c["workers"] = json!(1);
                out.push(c);
            }
            if case["hash_key"] != json!(0) {
                let mut c = case.clone();
                c["hash_key"] = json!(0);
                out.push(c);
            }
        }
        "b" => out.extend(crate::sim_b::case_candidates(case)),
        "c" => out.extend(crate::sim_c::case_candidates(case)),
        _ => {}
    }
    if case.get("prelude").map(|p| p.is_object()).unwrap_or(false) {
        for i in instance_candidates(&case["prelude"]).into_iter().take(16) {
            if RefInstance::parse(&i).is_ok() {
                let mut c = case.clone();
                c["prelude"] = i;
                out.push(c);
            }
        }
    }
    out
}

/// returns (minimised case, number of executions)
pub fn minimise(profile: &str, case: &Value, prop: &str, check: &str, cpu_budget_s: f64, max_exec: usize) -> (Value, usize) {
    let mut pool = Pool::new(worker_bin(profile), 1);
    let mut best = case.clone();
    let mut execs = 0usize;
    let t0 = std::time::Instant::now();
    // hangs make every candidate cost the whole CPU budget: bound the wall time as well
    let wall_cap = std::time::Duration::from_secs(if max_exec > 200 { 420 } else { 90 });
    let budget = if check == "C06.timeout" { cpu_budget_s } else { cpu_budget_s.min(10.0) };
    'outer: loop {
        let cands = case_candidates(&best);
        let mut progressed = false;
        for c in cands {
            if execs >= max_exec || t0.elapsed() > wall_cap {
                break 'outer;
            }
            execs += 1;
            let (vs, _) = exec_in(&mut pool, &c, &[prop], budget);
            if vs.iter().any(|(p, k, _)| p == prop && k == check) {
                best = c;
                progressed = true;
                continue 'outer;
            }
        }
        if !progressed {
            break;
        }
    }
    pool.shutdown();
    (best, execs)
}
