//! Parent side: a pool of worker processes with a CPU-time watchdog.

use serde_json::{json, Value};
use std::io::{BufRead, BufReader, Write};
use std::path::PathBuf;
use std::process::{Child, ChildStdin, Command, Stdio};
use std::sync::mpsc::{channel, Receiver, RecvTimeoutError, Sender};
use std::time::{Duration, Instant};

#[derive(Debug, Clone)]
pub enum JobResult {
    Done(Value),
    Timeout { cpu_s: f64 },
    Died { detail: String },
}

struct Busy {
    job: usize,
    started: bool,
    cpu_at_dispatch: f64,
    dispatched: Instant,
}

struct WorkerProc {
    child: Child,
    stdin: ChildStdin,
    pid: u32,
    generation: u64,
    busy: Option<Busy>,
}

pub struct Pool {
    /// largest CPU time (s) a completed job consumed in its worker
    pub max_cpu_s: f64,
    pub sum_cpu_s: f64,
    bin: PathBuf,
    workers: Vec<WorkerProc>,
    tx: Sender<(usize, u64, Option<String>)>,
    rx: Receiver<(usize, u64, Option<String>)>,
    next_generation: u64,
    pub respawns: u64,
    /// stop dispatching new jobs of a batch once this many jobs went over their CPU budget
    pub max_timeouts: usize,
    pub fresh_process_per_job: bool,
}

impl Pool {
    pub fn new(bin: PathBuf, n: usize) -> Pool {
        let (tx, rx) = channel();
        let mut p = Pool {
            max_cpu_s: 0.0,
            sum_cpu_s: 0.0,
            bin,
            workers: vec![],
            tx,
            rx,
            next_generation: 0,
            respawns: 0,
            max_timeouts: usize::MAX,
            fresh_process_per_job: false,
        };
        for i in 0..n {
            let w = p.spawn(i);
            p.workers.push(w);
        }
        p
    }

    fn spawn(&mut self, idx: usize) -> WorkerProc {
        let mut tries = 0;
        let mut child = loop {
            match Command::new(&self.bin).arg("worker").stdin(Stdio::piped()).stdout(Stdio::piped()).stderr(Stdio::null()).spawn() {
                Ok(c) => break c,
                Err(e) => {
                    tries += 1;
                    if tries > 100 {
                        eprintln!("harness error: cannot start a worker process: {}", e);
                        std::process::exit(2);
                    }
                    std::thread::sleep(Duration::from_millis(100));
                }
            }
        };
        let stdin = child.stdin.take().unwrap();
        let stdout = child.stdout.take().unwrap();
        let generation = self.next_generation;
        self.next_generation += 1;
        let tx = self.tx.clone();
        std::thread::spawn(move || {
            let r = BufReader::new(stdout);
            for line in r.lines() {
                match line {
                    Ok(l) => {
                        if tx.send((idx, generation, Some(l))).is_err() {
                            return;
                        }
                    }
                    Err(_) => break,
                }
            }
            let _ = tx.send((idx, generation, None));
        });
        let pid = child.id();
        WorkerProc {
            child,
            stdin,
            pid,
            generation,
            busy: None,
        }
    }

    fn respawn(&mut self, idx: usize) {
        let _ = self.workers[idx].child.kill();
        let _ = self.workers[idx].child.wait();
        let w = self.spawn(idx);
        self.workers[idx] = w;
        self.respawns += 1;
    }

    /// Run all jobs (worker commands without "id"); `on_result(job_index, result)` is called
    /// in completion order. Stops dispatching when `wall_cap` is exceeded (returns number of
    /// jobs never dispatched).
    pub fn run_batch<F: FnMut(usize, JobResult)>(
        &mut self,
        jobs: &[Value],
        cpu_budget_s: f64,
        wall_cap: Duration,
        mut on_result: F,
    ) -> usize {
        let t0 = Instant::now();
        let mut next = 0usize;
        let mut outstanding = 0usize;
        let mut timeouts_seen = 0usize;
        loop {
            // dispatch
            let capped = t0.elapsed() > wall_cap || timeouts_seen >= self.max_timeouts;
            if !capped {
                for i in 0..self.workers.len() {
                    if next >= jobs.len() {
                        break;
                    }
                    if self.workers[i].busy.is_none() {
                        let mut cmd = jobs[next].clone();
                        cmd["id"] = json!(next);
                        let line = cmd.to_string();
                        let ok = writeln!(self.workers[i].stdin, "{}", line).is_ok() && self.workers[i].stdin.flush().is_ok();
                        if !ok {
                            self.respawn(i);
                            let _ = writeln!(self.workers[i].stdin, "{}", line);
                            let _ = self.workers[i].stdin.flush();
                        }
                        let cpu = crate::seams::proc_cpu_seconds(self.workers[i].pid).unwrap_or(0.0);
                        self.workers[i].busy = Some(Busy {
                            job: next,
                            started: false,
                            cpu_at_dispatch: cpu,
                            dispatched: Instant::now(),
                        });
                        next += 1;
                        outstanding += 1;
                    }
                }
            }
            if outstanding == 0 && (next >= jobs.len() || capped) {
                break;
            }
            // receive
            match self.rx.recv_timeout(Duration::from_millis(100)) {
                Ok((idx, generation, line)) => {
                    if self.workers[idx].generation != generation {
                        continue; // stale line of a killed worker
                    }
                    match line {
                        Some(l) => {
                            if let Ok(v) = serde_json::from_str::<Value>(&l) {
                                if v.get("start").is_some() {
                                    if let Some(b) = self.workers[idx].busy.as_mut() {
                                        b.started = true;
                                    }
                                } else if let Some(id) = v.get("done").and_then(|x| x.as_u64()) {
                                    if let Some(b) = self.workers[idx].busy.take() {
                                        debug_assert_eq!(b.job as u64, id);
                                        let cpu = crate::seams::proc_cpu_seconds(self.workers[idx].pid).unwrap_or(0.0) - b.cpu_at_dispatch;
                                        if cpu > self.max_cpu_s {
                                            self.max_cpu_s = cpu;
                                        }
                                        self.sum_cpu_s += cpu.max(0.0);
                                        outstanding -= 1;
                                        on_result(b.job, JobResult::Done(v));
                                        if self.fresh_process_per_job {
                                            // one run per process: the heap (and any other process
                                            // state) a run starts from is that of a fresh process,
                                            // exactly what `replay` gives it
                                            self.respawn(idx);
                                            self.respawns -= 1;
                                        }
                                    }
                                }
                            }
                        }
                        None => {
                            // worker died (abort, stack overflow, killed)
                            if let Some(b) = self.workers[idx].busy.take() {
                                outstanding -= 1;
                                let status = self.workers[idx]
                                    .child
                                    .wait()
                                    .map(|s| if s.code() == Some(3) { "HARNESS: worker gave up (resource exhaustion)".to_string() } else { format!("{:?}", s) })
                                    .unwrap_or_default();
                                self.respawn(idx);
                                on_result(b.job, JobResult::Died { detail: status });
                            } else {
                                self.respawn(idx);
                            }
                        }
                    }
                }
                Err(RecvTimeoutError::Timeout) => {}
                Err(RecvTimeoutError::Disconnected) => break,
            }
            // watchdog: CPU time of the worker since dispatch (not wall clock)
            for i in 0..self.workers.len() {
                let over = match &self.workers[i].busy {
                    Some(b) => {
                        let cpu = crate::seams::proc_cpu_seconds(self.workers[i].pid).unwrap_or(0.0) - b.cpu_at_dispatch;
                        // a blocked (deadlocked) worker burns no CPU: also cap by a generous wall time
                        if cpu > cpu_budget_s || b.dispatched.elapsed().as_secs_f64() > cpu_budget_s * 20.0 + 60.0 {
                            Some(cpu)
                        } else {
                            None
                        }
                    }
                    None => None,
                };
                if let Some(cpu) = over {
                    let b = self.workers[i].busy.take().unwrap();
                    outstanding -= 1;
                    self.respawn(i);
                    timeouts_seen += 1;
                    on_result(b.job, JobResult::Timeout { cpu_s: cpu });
                }
            }
        }
        jobs.len() - next
    }

    pub fn exec_one(&mut self, cmd: Value, cpu_budget_s: f64) -> JobResult {
        let mut res = JobResult::Died { detail: "no answer".into() };
        self.run_batch(&[cmd], cpu_budget_s, Duration::from_secs(3600), |_, r| res = r);
        res
    }

    pub fn shutdown(&mut self) {
        for w in self.workers.iter_mut() {
            let _ = writeln!(w.stdin, "{}", json!({"cmd": "quit"}));
            let _ = w.stdin.flush();
        }
        for w in self.workers.iter_mut() {
            let t0 = Instant::now();
            loop {
                match w.child.try_wait() {
                    Ok(Some(_)) => break,
                    _ => {
                        if t0.elapsed() > Duration::from_millis(500) {
                            let _ = w.child.kill();
                            let _ = w.child.wait();
                            break;
                        }
                        std::thread::sleep(Duration::from_millis(10));
                    }
                }
            }
        }
    }
}

impl Drop for Pool {
    fn drop(&mut self) {
        for w in self.workers.iter_mut() {
            let _ = w.child.kill();
            let _ = w.child.wait();
        }
    }
}
