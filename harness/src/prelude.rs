//! Process history as a searched dimension: some runs first solve another instance ("prelude") on
//! the same thread and in the same rayon pool as the instance under test. State that a code change
//! keeps outside the immutable structures (a `static`, a `thread_local!`, a memo keyed by an address
//! that the allocator hands out again) then carries over from the prelude inside one replayable
//! case, instead of leaking between unrelated runs of a worker process where it could not be
//! reproduced.

use crate::gen::{gen_instance, GenOpts};
use crate::refmodel::RefInstance;
use crate::rng::Rng;
use serde_json::{json, Value};

/// `share`: with probability share_num/share_den a prelude is generated
pub fn gen_prelude(rng: &mut Rng, main: &Value, opts: &GenOpts, share_num: u64, share_den: u64) -> Option<Value> {
    if !rng.chance(share_num, share_den) {
        return None;
    }
    if rng.chance(3, 10) {
        // an unrelated instance that uses the same ids for other objects
        let mut g = rng.fork(77);
        let (v, _) = gen_instance(&mut g, opts);
        return if RefInstance::parse(&v).is_ok() { Some(v) } else { None };
    }
    // the same infrastructure and ids with other data
    let mut v = main.clone();
    let n_tweaks = rng.range(1, 3);
    for _ in 0..n_tweaks {
        match rng.usize(7) {
            0 => {
                let md = *rng.pick(&[0u64, 7_000, 40_000, 150_000, 10_000_000]);
                v["parameters"]["maintenance"] = json!({"maximalDistance": md});
            }
            1 => {
                for k in ["staff", "serviceTrip", "maintenance", "deadHeadTrip", "idle"] {
                    if rng.chance(1, 2) {
                        v["parameters"]["costs"][k] = json!(*rng.pick(&[0u64, 1, 2, 4, 7, 20]));
                    }
                }
            }
            2 => {
                v["parameters"]["shunting"] = json!({"minimalDuration": *rng.pick(&[0u64, 60, 300, 600]), "deadHeadTripDuration": *rng.pick(&[0u64, 60, 300])});
            }
            3 => {
                if let Some(o) = v.as_object_mut() {
                    o.remove("depots");
                }
            }
            4 => {
                // the last departure one day later: another planning horizon
                if let Some(last) = v["departures"].as_array_mut().and_then(|d| d.last_mut()) {
                    if let Some(segs) = last["segments"].as_array_mut() {
                        for s in segs.iter_mut() {
                            if let Some(t) = s["departure"].as_str().and_then(|t| crate::refmodel::parse_time(t).ok()) {
                                s["departure"] = json!(crate::refmodel::fmt_time(t + 86400));
                            }
                        }
                    }
                }
            }
            5 => {
                if let Some(d) = v["departures"].as_array_mut() {
                    if d.len() >= 2 {
                        d.remove(0);
                    }
                }
            }
            _ => {
                // another dead-head matrix under the same location ids
                for key in ["durations", "distances"] {
                    if let Some(rows) = v["deadHeadTrips"][key].as_array_mut() {
                        for (i, row) in rows.iter_mut().enumerate() {
                            if let Some(r) = row.as_array_mut() {
                                for (j, x) in r.iter_mut().enumerate() {
                                    if i != j {
                                        if let Some(n) = x.as_u64() {
                                            *x = json!(if key == "durations" { n + 300 } else { n + 3000 });
                                        }
                                    }
                                }
                            }
                        }
                    }
                }
            }
        }
    }
    if v == *main {
        return None;
    }
    if RefInstance::parse(&v).is_ok() {
        Some(v)
    } else {
        None
    }
}

/// run the prelude on the current thread / pool; its result is dropped before the caller goes on.
/// `light`: only load the network. A panic of the prelude is not this run's business (the
/// prelude's own run reports it): it is swallowed and counted.
pub fn run(prelude: &Value, light: bool) -> bool {
    let p = prelude.clone();
    let r = crate::seams::guarded(move || {
        if light {
            let nw = model::json_serialisation::load_rolling_stock_problem_instance_from_json(p);
            drop(nw);
        } else {
            let out = server::solve_instance(p);
            drop(out);
        }
    });
    crate::seams::clear_last_panic();
    r.is_ok()
}
