//! C17: the loaded network against REF — node attributes, depots, all ordered pairs of
//! `can_reach`, successor / predecessor enumerations (tie-rich grids).

use crate::adapter::Adapter;
use crate::oracle_out::{viol, Violation};
use crate::refmodel::*;
use model::base_types::NodeIdx;
use model::json_serialisation::load_rolling_stock_problem_instance_from_json;
use serde_json::Value;
use std::collections::{BTreeMap, BTreeSet};

pub fn check_c17(instance: Value, inst: &RefInstance) -> (Vec<Violation>, bool, BTreeMap<String, u64>) {
    let mut out = vec![];
    let mut probes: BTreeMap<String, u64> = BTreeMap::new();
    let nw = load_rolling_stock_problem_instance_from_json(instance);
    let ad = match Adapter::new(inst, nw.clone()) {
        Ok(a) => a,
        Err(e) => {
            out.push(viol("C17", "C17.identity", e));
            return (out, false, probes);
        }
    };
    // ---- nodes ------------------------------------------------------------------------------
    let n_service = nw.all_service_nodes().count();
    if n_service as u64 != inst.n_segments || nw.number_of_service_nodes() as u64 != inst.n_segments {
        out.push(viol("C17", "C17.service_count", format!("{} service nodes for {} departure segments", n_service, inst.n_segments)));
    }
    if nw.maintenance_nodes().count() != inst.maint_acts().count() {
        out.push(viol("C17", "C17.slot_count", format!("{} maintenance nodes for {} slots", nw.maintenance_nodes().count(), inst.maint_acts().count())));
    }
    let loc_id = |l| nw.locations().get_id(l).unwrap_or_else(|_| "?".into());
    for (&n, &a) in &ad.node_to_act {
        let node = nw.node(n);
        let act = &inst.acts[a];
        let mut bad = vec![];
        if loc_id(node.start_location()) != inst.locs[act.from] {
            bad.push(format!("origin {} vs {}", loc_id(node.start_location()), inst.locs[act.from]));
        }
        if loc_id(node.end_location()) != inst.locs[act.to] {
            bad.push(format!("destination {} vs {}", loc_id(node.end_location()), inst.locs[act.to]));
        }
        if parse_time(&node.start_time().as_iso()) != Ok(act.start) {
            bad.push(format!("start {} vs {}", node.start_time().as_iso(), fmt_time(act.start)));
        }
        if parse_time(&node.end_time().as_iso()) != Ok(act.end) {
            bad.push(format!("end {} vs {}", node.end_time().as_iso(), fmt_time(act.end)));
        }
        match act.kind {
            ActKind::Service => {
                if !node.is_service() {
                    bad.push("not a service node".into());
                } else {
                    let st = node.as_service_trip();
                    let t = act.vtype.unwrap();
                    if ad.type_to_ref.get(&st.vehicle_type()) != Some(&t) {
                        bad.push("vehicle type".into());
                    }
                    if node.travel_distance().in_meter().ok() != Some(act.dist) {
                        bad.push(format!("distance {:?} vs {}", node.travel_distance().in_meter().ok(), act.dist));
                    }
                    if st.passengers() as u64 != act.passengers {
                        bad.push(format!("passengers {} vs {}", st.passengers(), act.passengers));
                    }
                    if st.seated() as u64 != act.seated {
                        bad.push(format!("seated {} vs {}", st.seated(), act.seated));
                    }
                    if st.maximal_formation_count().map(|x| x as u64) != act.seg_limit {
                        bad.push(format!("route-segment limit {:?} vs {:?}", st.maximal_formation_count(), act.seg_limit));
                    }
                    let lim = nw.maximal_formation_count_for(n).map(|x| x as u64);
                    if lim != act.limit() {
                        out.push(viol(
                            "C17",
                            match (act.type_limit, act.seg_limit) {
                                (None, Some(_)) => "C17.formation_limit_segment_only",
                                _ => "C17.formation_limit",
                            },
                            format!("{}: formation limit {:?}, instance says type {:?} / route segment {:?}", act.id, lim, act.type_limit, act.seg_limit),
                        ));
                    }
                    let req = nw.number_of_vehicles_required_to_serve(st.vehicle_type(), n) as u64;
                    if req != inst.required(a) {
                        bad.push(format!("required vehicles {} vs {}", req, inst.required(a)));
                    }
                }
            }
            ActKind::Maint => {
                if !node.is_maintenance() {
                    bad.push("not a maintenance node".into());
                } else if nw.track_count_of_maintenance_slot(n) as u64 != act.tracks {
                    bad.push(format!("tracks {} vs {}", nw.track_count_of_maintenance_slot(n), act.tracks));
                }
            }
        }
        if !bad.is_empty() {
            out.push(viol("C17", "C17.node_attributes", format!("{}: {}", act.id, bad.join(", "))));
        }
    }
    // ---- depots -----------------------------------------------------------------------------
    let needed_upper_bound: u64 = inst.service_acts().map(|a| inst.served(a)).sum::<u64>() + inst.maint_acts().map(|a| inst.acts[a].tracks).sum::<u64>();
    let n_real = ad.depot_to_ref.values().filter(|r| matches!(r, DepotRef::Real(_))).count();
    if n_real != inst.depots.len() {
        out.push(viol("C17", "C17.depot_count", format!("{} depots loaded, instance has {}", n_real, inst.depots.len())));
    }
    for (&d, &r) in &ad.depot_to_ref {
        let dep = nw.get_depot(d);
        match r {
            DepotRef::Real(i) => {
                let rd = &inst.depots[i];
                if loc_id(dep.location()) != inst.locs[rd.loc] {
                    out.push(viol("C17", "C17.depot_location", format!("depot {} at {} vs {}", rd.id, loc_id(dep.location()), inst.locs[rd.loc])));
                }
                if inst.depots_defaulted {
                    if (nw.total_capacity_of(d) as u64) < needed_upper_bound {
                        out.push(viol("C17", "C17.default_depot_not_unlimited", format!("depots are not given, so {} is unlimited; it hosts only {} vehicles while covering the demand may need {}", rd.id, nw.total_capacity_of(d), needed_upper_bound)));
                    }
                    for (&vt, &t) in &ad.type_to_ref {
                        if nw.capacity_of(d, vt) != nw.total_capacity_of(d) {
                            out.push(viol("C17", "C17.default_depot_type", format!("defaulted depot {} restricts type {}", rd.id, inst.types[t].id)));
                        }
                    }
                } else {
                    if nw.total_capacity_of(d) as u64 != rd.total {
                        out.push(viol("C17", "C17.depot_total", format!("depot {}: total capacity {} vs {}", rd.id, nw.total_capacity_of(d), rd.total)));
                    }
                    for (&vt, &t) in &ad.type_to_ref {
                        if nw.capacity_of(d, vt) as u64 != rd.cap_for(t) {
                            out.push(viol("C17", "C17.depot_type_capacity", format!("depot {} type {}: capacity {} vs {}", rd.id, inst.types[t].id, nw.capacity_of(d, vt), rd.cap_for(t))));
                        }
                    }
                }
                let (sn, en) = (nw.get_start_depot_node(d), nw.get_end_depot_node(d));
                if !nw.node(sn).is_start_depot() || !nw.node(en).is_end_depot() || nw.get_depot_idx(sn) != d || nw.get_depot_idx(en) != d {
                    out.push(viol("C17", "C17.depot_nodes", format!("depot {}: start/end nodes inconsistent", rd.id)));
                }
            }
            DepotRef::Overflow => {
                for (&vt, &t) in &ad.type_to_ref {
                    let need_t: u64 = inst.service_acts().filter(|&a| inst.acts[a].vtype == Some(t)).map(|a| inst.served(a)).sum::<u64>()
                        + inst.maint_acts().map(|a| inst.acts[a].tracks).sum::<u64>();
                    if (nw.capacity_of(d, vt) as u64) < need_t {
                        out.push(viol("C17", "C17.overflow_capacity", format!("overflow depot hosts {} vehicles of type {}, but covering the demand may need {}", nw.capacity_of(d, vt), inst.types[t].id, need_t)));
                    }
                }
                if (nw.total_capacity_of(d) as u64) < needed_upper_bound {
                    out.push(viol("C17", "C17.overflow_capacity", format!("overflow depot hosts {} vehicles in total, but covering the demand may need {}", nw.total_capacity_of(d), needed_upper_bound)));
                }
            }
        }
    }
    // ---- reachability: all ordered pairs ---------------------------------------------------------
    let acts: Vec<(NodeIdx, usize)> = ad.node_to_act.iter().map(|(&n, &a)| (n, a)).collect();
    let mut ties = 0u64;
    for &(n1, a1) in &acts {
        for &(n2, a2) in &acts {
            let want = inst.connectable(a1, a2);
            if let Some(need) = inst.need(&inst.acts[a1], &inst.acts[a2]) {
                if inst.acts[a1].end + need as i64 == inst.acts[a2].start {
                    ties += 1;
                }
            }
            if nw.can_reach(n1, n2) != want {
                out.push(viol(
                    "C17",
                    if want { "C17.can_reach_too_strict" } else { "C17.can_reach_too_lax" },
                    format!("can_reach({}, {}) = {} but the timing rule says {}", inst.acts[a1].id, inst.acts[a2].id, !want, want),
                ));
            }
        }
    }
    probes.insert("tie_pairs".into(), ties);
    let starts: Vec<NodeIdx> = nw.start_depot_nodes().collect();
    let ends: Vec<NodeIdx> = nw.end_depot_nodes().collect();
    for &(n, a) in &acts {
        for &s in &starts {
            if !nw.can_reach(s, n) || nw.can_reach(n, s) {
                out.push(viol("C17", "C17.can_reach_depot", format!("start depot convention broken at {}", inst.acts[a].id)));
            }
        }
        for &e in &ends {
            if !nw.can_reach(n, e) || nw.can_reach(e, n) {
                out.push(viol("C17", "C17.can_reach_depot", format!("end depot convention broken at {}", inst.acts[a].id)));
            }
        }
    }
    for &s in &starts {
        for &e in &ends {
            if !nw.can_reach(s, e) || nw.can_reach(e, s) {
                out.push(viol("C17", "C17.can_reach_depot", "depot to depot convention broken".into()));
            }
        }
        for &s2 in &starts {
            if nw.can_reach(s, s2) {
                out.push(viol("C17", "C17.can_reach_depot", "start depot reachable".into()));
            }
        }
    }
    // ---- successors / predecessors ---------------------------------------------------------------
    for (&vt, &t) in &ad.type_to_ref {
        let of_type: Vec<(NodeIdx, usize)> = acts
            .iter()
            .copied()
            .filter(|&(_, a)| inst.acts[a].kind == ActKind::Maint || inst.acts[a].vtype == Some(t))
            .collect();
        let name = |n: NodeIdx| -> String { nw.node(n).id().to_string() };
        let all_nodes: Vec<NodeIdx> = acts.iter().map(|x| x.0).chain(starts.iter().copied()).chain(ends.iter().copied()).collect();
        for &n in &all_nodes {
            // expected sets
            let mut exp_succ: BTreeSet<NodeIdx> = BTreeSet::new();
            let mut exp_pred: BTreeSet<NodeIdx> = BTreeSet::new();
            let node = nw.node(n);
            if !node.is_end_depot() {
                for &(m, am) in &of_type {
                    let ok = if node.is_start_depot() { true } else { inst.connectable(ad.node_to_act[&n], am) };
                    if ok {
                        exp_succ.insert(m);
                    }
                }
                exp_succ.extend(ends.iter().copied());
            }
            if !node.is_start_depot() {
                for &(m, am) in &of_type {
                    let ok = if node.is_end_depot() { true } else { inst.connectable(am, ad.node_to_act[&n]) };
                    if ok {
                        exp_pred.insert(m);
                    }
                }
                exp_pred.extend(starts.iter().copied());
            }
            let got_succ: Vec<NodeIdx> = nw.successors(vt, n).collect();
            let got_pred: Vec<NodeIdx> = nw.predecessors(vt, n).collect();
            let gs: BTreeSet<NodeIdx> = got_succ.iter().copied().collect();
            let gp: BTreeSet<NodeIdx> = got_pred.iter().copied().collect();
            if gs.len() != got_succ.len() || gp.len() != got_pred.len() {
                out.push(viol("C17", "C17.enumeration_duplicates", format!("successors/predecessors of {} list a node twice", name(n))));
            }
            if gs != exp_succ {
                let missing: Vec<String> = exp_succ.difference(&gs).map(|&m| name(m)).collect();
                let extra: Vec<String> = gs.difference(&exp_succ).map(|&m| name(m)).collect();
                out.push(viol("C17", if !missing.is_empty() { "C17.successors_missing" } else { "C17.successors_extra" }, format!("successors({}, {}): missing {:?}, extra {:?}", inst.types[t].id, name(n), missing, extra)));
            }
            if gp != exp_pred {
                let missing: Vec<String> = exp_pred.difference(&gp).map(|&m| name(m)).collect();
                let extra: Vec<String> = gp.difference(&exp_pred).map(|&m| name(m)).collect();
                out.push(viol("C17", if !missing.is_empty() { "C17.predecessors_missing" } else { "C17.predecessors_extra" }, format!("predecessors({}, {}): missing {:?}, extra {:?}", inst.types[t].id, name(n), missing, extra)));
            }
        }
    }
    // one report per check id is enough
    let mut seen = BTreeSet::new();
    out.retain(|v| seen.insert(v.check.clone()));
    (out, ties > 0, probes)
}
