//! SIM-B — modification-history simulation: the real, immutable Schedule / Tour / Transition
//! values are driven through their public API by a seeded operation sequence next to a trivial
//! reference state; after every operation all invariants and recomputations are evaluated.

use crate::adapter::Adapter;
use crate::gen::{gen_instance, GenOpts};
use crate::oracle_out::{viol, Violation};
use crate::refmodel::*;
use crate::refstate::*;
use crate::rng::{digest_str, Rng};
use crate::seams::{guarded, panic_signature, run_isolated};
use model::base_types::{NodeIdx, VehicleIdx, VehicleTypeIdx};
use model::json_serialisation::load_rolling_stock_problem_instance_from_json;
use serde_json::{json, Value};
use solution::path::Path;
use solution::segment::Segment;
use solution::Schedule;
use std::collections::{BTreeMap, BTreeSet};

pub fn gen_case(seed: u64, focus: &str) -> Value {
    let mut rng = Rng::new(seed);
    let mut g = rng.fork(1);
    let opts = GenOpts {
        need_slots: focus == "C11" || focus == "C15" || focus == "C15x" || g.chance(1, 2),
        no_type_coupling: false,
        max_segments: if focus == "C11" { 8 } else if focus == "C12x" { 5 } else { 10 },
        risky: false,
        id_prefix: String::new(),
        ties: g.chance(2, 3),
        sentinels: true,
        nonzero_diagonal: false,
    };
    let (instance, summary) = gen_instance(&mut g, &opts);
    let mut h = rng.fork(2);
    let hash_key = h.next_u64();
    let workers = *h.pick(&[1usize, 1, 2, 4]);
    let mode = match focus {
        "C11" => "walk",
        "C15" => "trans",
        "C12x" => "exhaust",
        "C15x" => "trans_exhaust",
        _ => "ops",
    };
    let n_ops = match mode {
        "walk" => h.range(2, 8),
        "trans" => h.range(3, 30),
        _ => h.range(1, 40),
    };
    let start_mode = *h.pick(&["empty", "mcf", "mcf", "mcf_improved", "greedy"]);
    let mut case = json!({
        "sim": "b", "seed": seed, "focus": focus, "mode": mode, "instance": instance, "hash_key": hash_key,
        "workers": workers, "ops_seed": h.next_u64(), "n_ops": n_ops, "start": start_mode, "gen": summary,
        "segment_limit": *h.pick(&[0i64, 1800, 10800]), "overhead_threshold": *h.pick(&[-1i64, 0, 600]),
    });
    // process history (see prelude.rs): walks often, operation histories sometimes, small-scope batches never
    let share = match mode {
        "walk" => Some((1, 3)),
        "ops" | "trans" => Some((1, 8)),
        _ => None,
    };
    if let Some((a, b)) = share {
        let mut pr = rng.fork(3);
        if let Some(p) = crate::prelude::gen_prelude(&mut pr, &case["instance"], &opts, a, b) {
            case["prelude"] = p;
        }
    }
    case
}

pub fn case_candidates(case: &Value) -> Vec<Value> {
    let mut out = vec![];
    // drop operations (last first, then halves)
    if let Some(ops) = case["ops"].as_array() {
        let n = ops.len();
        if n > 1 {
            for k in [n / 2, n / 4] {
                if k >= 1 && k < n {
                    let mut c = case.clone();
                    c["ops"] = Value::Array(ops[n - k..].to_vec());
                    out.push(c);
                    let mut c = case.clone();
                    let mut v = ops[..n - 1 - k.min(n - 1)].to_vec();
                    v.push(ops[n - 1].clone());
                    c["ops"] = Value::Array(v);
                    out.push(c);
                }
            }
            for i in (0..n - 1).rev() {
                let mut c = case.clone();
                let mut v = ops.clone();
                v.remove(i);
                c["ops"] = Value::Array(v);
                out.push(c);
            }
        }
    }
    if case["start"] != json!("empty") && case["ops"].is_array() {
        let mut c = case.clone();
        c["start"] = json!("empty");
        out.push(c);
    }
    for i in crate::shrink::instance_candidates(&case["instance"]) {
        if RefInstance::parse(&i).is_ok() {
            let mut c = case.clone();
            c["instance"] = i;
            out.push(c);
        }
    }
    if case["workers"] != json!(1) {
        let mut c = case.clone();
        c["workers"] = json!(1);
        out.push(c);
    }
    if case["hash_key"] != json!(0) {
        let mut c = case.clone();
        c["hash_key"] = json!(0);
        out.push(c);
    }
    out
}

pub struct Ctx {
    pub inst: RefInstance,
    pub ad: Adapter,
    pub names: BTreeMap<String, NodeIdx>,
    pub out: Vec<Violation>,
    pub probes: BTreeMap<String, u64>,
    pub ops_done: Vec<Value>,
    pub ok_kinds: BTreeSet<String>,
    pub ok_ops: u64,
    pub refused_ops: u64,
    pub steps: u64,
    pub log: String,
}

impl Ctx {
    pub fn name(&self, n: NodeIdx) -> String {
        self.ad.nw.node(n).id().to_string()
    }
    pub fn names_of(&self, ns: &[NodeIdx]) -> Vec<String> {
        ns.iter().map(|n| self.name(*n)).collect()
    }
    pub fn node(&self, s: &str) -> Option<NodeIdx> {
        self.names.get(s).copied()
    }
    pub fn probe(&mut self, k: &str) {
        *self.probes.entry(k.to_string()).or_insert(0) += 1;
    }
    pub fn v(&mut self, prop: &'static str, check: &str, msg: String) {
        self.out.push(viol(prop, check, msg));
    }
}

pub fn parse_vehicle(s: &str) -> Option<VehicleIdx> {
    if let Some(x) = s.strip_prefix("veh_") {
        x.parse().ok().map(VehicleIdx::vehicle_from)
    } else if let Some(x) = s.strip_prefix("dummy_") {
        x.parse().ok().map(VehicleIdx::dummy_from)
    } else {
        None
    }
}

fn type_by_name(cx: &Ctx, s: &str) -> Option<VehicleTypeIdx> {
    cx.inst.type_by_id(s).map(|r| cx.ad.ref_to_type[r])
}

fn type_name(cx: &Ctx, vt: VehicleTypeIdx) -> String {
    cx.inst.types[cx.ad.type_to_ref[&vt]].id.clone()
}

/// REF: may a vehicle of type `vt` start at start-depot node `n` given the snapshot?
fn depot_has_room(cx: &Ctx, sn: &Snap, n: NodeIdx, vt: VehicleTypeIdx, ignoring: Option<VehicleIdx>) -> bool {
    match cx.ad.depot_ref_of_node(n) {
        Some(DepotRef::Overflow) => true,
        Some(DepotRef::Real(d)) => {
            let t = cx.ad.type_to_ref[&vt];
            let dep = &cx.inst.depots[d];
            // depots that are not given are "unlimited"; the finite number that stands for it is
            // the repo's own (C17 checks that it is large enough)
            let (cap_t, cap_total) = if cx.inst.depots_defaulted {
                let didx = cx.ad.nw.get_depot_idx(n);
                (cx.ad.nw.capacity_of(didx, vt) as u64, cx.ad.nw.total_capacity_of(didx) as u64)
            } else {
                (dep.cap_for(t), dep.total)
            };
            let mut same = 0u64;
            let mut total = 0u64;
            for (v, (vvt, nodes)) in &sn.vehicles {
                if Some(*v) == ignoring {
                    continue;
                }
                if nodes.first().and_then(|x| cx.ad.depot_ref_of_node(*x)) == Some(DepotRef::Real(d)) {
                    total += 1;
                    if *vvt == vt {
                        same += 1;
                    }
                }
            }
            same < cap_t && total < cap_total
        }
        None => false,
    }
}

fn formation_full(cx: &Ctx, sn: &Snap, n: NodeIdx) -> bool {
    match cx.ad.node_to_act.get(&n) {
        Some(&a) => match cx.inst.acts[a].limit() {
            Some(l) => sn.formations[&n].len() as u64 >= l,
            None => false,
        },
        None => false,
    }
}

fn compatible(cx: &Ctx, n: NodeIdx, vt: VehicleTypeIdx) -> bool {
    match cx.ad.node_to_act.get(&n) {
        Some(&a) => cx.inst.acts[a].kind == ActKind::Maint || cx.inst.acts[a].vtype == Some(cx.ad.type_to_ref[&vt]),
        None => true,
    }
}

/// frame condition: everything not named is identical in `before` and `after`
fn check_frame(
    cx: &mut Ctx,
    op: &str,
    before: &Snap,
    after: &Snap,
    touched_vehicles: &BTreeSet<VehicleIdx>,
    touched_nodes: &BTreeSet<NodeIdx>,
    new_ids: &BTreeSet<VehicleIdx>,
) {
    for (v, x) in &before.vehicles {
        if touched_vehicles.contains(v) {
            continue;
        }
        match after.vehicles.get(v) {
            Some(y) if x == y => {}
            Some(y) => cx.v("C13", &format!("C13.{}.frame_other_tour_changed", op), format!("{}: tour of untouched {} changed from {:?} to {:?}", op, v, cx.names_of(&x.1), cx.names_of(&y.1))),
            None => cx.v("C13", &format!("C13.{}.frame_other_vehicle_lost", op), format!("{}: untouched {} disappeared", op, v)),
        }
    }
    for (v, x) in &before.dummies {
        if touched_vehicles.contains(v) {
            continue;
        }
        match after.dummies.get(v) {
            Some(y) if x == y => {}
            _ => cx.v("C13", &format!("C13.{}.frame_dummy_changed", op), format!("{}: untouched {} changed or disappeared", op, v)),
        }
    }
    for v in after.vehicles.keys().chain(after.dummies.keys()) {
        if !before.vehicles.contains_key(v) && !before.dummies.contains_key(v) && !new_ids.contains(v) {
            cx.v("C13", &format!("C13.{}.frame_unexpected_new", op), format!("{}: unexpected new {}", op, v));
        }
    }
    for (n, f) in &before.formations {
        if touched_nodes.contains(n) {
            continue;
        }
        if after.formations.get(n) != Some(f) {
            cx.v(
                "C13",
                &format!("C13.{}.frame_formation_changed", op),
                format!("{}: formation of untouched {} changed from {:?} to {:?}", op, cx.name(*n), f, after.formations.get(n)),
            );
        }
    }
}

/// formation order: `expect` is the exact expected formation of node n
fn check_formation(cx: &mut Ctx, op: &str, after: &Snap, n: NodeIdx, expect: &[VehicleIdx]) {
    if after.formations.get(&n).map(|f| f.as_slice()) != Some(expect) {
        cx.v(
            "C13",
            &format!("C13.{}.formation_order", op),
            format!("{}: formation of {} is {:?}, expected {:?}", op, cx.name(n), after.formations.get(&n), expect),
        );
    }
}

fn without(f: &[VehicleIdx], v: VehicleIdx) -> Vec<VehicleIdx> {
    f.iter().copied().filter(|x| *x != v).collect()
}
fn with_tail(f: &[VehicleIdx], v: VehicleIdx) -> Vec<VehicleIdx> {
    let mut x = f.to_vec();
    x.push(v);
    x
}
fn replaced(f: &[VehicleIdx], old: VehicleIdx, new: VehicleIdx) -> Vec<VehicleIdx> {
    f.iter().map(|x| if *x == old { new } else { *x }).collect()
}

/// exactly one new dummy holding `service_trips` in order (none if empty); returns its id
fn check_new_dummy(cx: &mut Ctx, op: &str, before: &Snap, after: &Snap, service_trips: &[NodeIdx], new_ids: &mut BTreeSet<VehicleIdx>) -> Option<VehicleIdx> {
    let fresh: Vec<VehicleIdx> = after.dummies.keys().filter(|d| !before.dummies.contains_key(d)).copied().collect();
    if service_trips.is_empty() {
        if !fresh.is_empty() {
            cx.v("C13", &format!("C13.{}.unexpected_dummy", op), format!("{}: new dummy {:?} although no service trip was displaced", op, fresh));
        }
        return None;
    }
    if fresh.len() != 1 {
        cx.v(
            "C13",
            &format!("C13.{}.displaced_trips_not_handed_back", op),
            format!("{}: displaced service trips {:?} must appear in exactly one new dummy, found {:?}", op, cx.names_of(service_trips), fresh),
        );
        for f in fresh {
            new_ids.insert(f);
        }
        return None;
    }
    let d = fresh[0];
    new_ids.insert(d);
    if after.dummies[&d] != service_trips {
        cx.v(
            "C13",
            &format!("C13.{}.dummy_content", op),
            format!("{}: new {} holds {:?}, expected {:?}", op, d, cx.names_of(&after.dummies[&d]), cx.names_of(service_trips)),
        );
    }
    Some(d)
}

fn service_only(cx: &Ctx, ns: &[NodeIdx]) -> Vec<NodeIdx> {
    ns.iter().copied().filter(|n| cx.ad.nw.node(*n).is_service()).collect()
}

fn tour_nodes<'a>(sn: &'a Snap, v: VehicleIdx) -> Option<&'a Vec<NodeIdx>> {
    sn.vehicles.get(&v).map(|x| &x.1).or_else(|| sn.dummies.get(&v))
}

// -------------------------------------------------------------------------------------------
// applying one operation
// -------------------------------------------------------------------------------------------

/// Applies `op` to `s`; returns the new state (or the old one if the operation was refused,
/// skipped, or panicked).
pub fn apply_op(cx: &mut Ctx, s: &Schedule, op: &Value) -> Schedule {
    let kind = op["op"].as_str().unwrap_or("").to_string();
    let before = snap(&cx.ad, s);
    let nodes_arg: Vec<NodeIdx> = op["nodes"].as_array().map(|a| a.iter().filter_map(|x| x.as_str().and_then(|n| cx.node(n))).collect()).unwrap_or_default();
    let all_resolved = op["nodes"].as_array().map(|a| a.len() == nodes_arg.len()).unwrap_or(true);
    let veh = |k: &str| op[k].as_str().and_then(parse_vehicle);
    let nd = |cx: &Ctx, k: &str| op[k].as_str().and_then(|n| cx.node(n));
    let mut new_state: Option<Schedule> = None;
    let mut refused = false;
    macro_rules! skip {
        () => {{
            cx.probe("op_skipped_precondition");
            return s.clone();
        }};
    }
    if !all_resolved {
        skip!();
    }
    let opname = kind.as_str();
    match opname {
        // ------------------------------------------------------------------------------------
        "spawn" => {
            let vt = match op["vt"].as_str().and_then(|t| type_by_name(cx, t)) {
                Some(t) => t,
                None => skip!(),
            };
            let acts = non_depots(&cx.ad, &nodes_arg);
            if acts.is_empty() {
                skip!();
            }
            let mismatch = acts.iter().any(|n| !compatible(cx, *n, vt));
            let full = acts.iter().any(|n| formation_full(cx, &before, *n));
            let is_path = nodes_arg.windows(2).all(|w| reach(&cx.ad, &cx.inst, w[0], w[1]))
                && nodes_arg.iter().enumerate().all(|(i, n)| i == 0 || i == nodes_arg.len() - 1 || !cx.ad.nw.node(*n).is_depot())
                && (nodes_arg.len() < 2 || !cx.ad.nw.node(nodes_arg[0]).is_end_depot())
                && (nodes_arg.len() < 2 || !cx.ad.nw.node(*nodes_arg.last().unwrap()).is_start_depot());
            if !is_path {
                skip!();
            }
            let r = guarded(|| s.spawn_vehicle_for_path(vt, nodes_arg.clone()));
            match r {
                Err(p) => cx.v("C13", &format!("C13.spawn.panic:{}", panic_signature(&p)), format!("spawn_vehicle_for_path({}, {:?}) panicked: {}", type_name(cx, vt), cx.names_of(&nodes_arg), p)),
                Ok(Err(e)) => {
                    refused = true;
                    if !mismatch && !full {
                        cx.v("C13", "C13.spawn.refused_valid", format!("spawn_vehicle_for_path({}, {:?}) refused without reason: {}", type_name(cx, vt), cx.names_of(&nodes_arg), e));
                    }
                }
                Ok(Ok((s2, v))) => {
                    let after = snap(&cx.ad, &s2);
                    if mismatch {
                        cx.v("C13", "C13.spawn.accepted_foreign_type", format!("spawn accepted nodes {:?} for type {}", cx.names_of(&nodes_arg), type_name(cx, vt)));
                    }
                    if full {
                        cx.v("C13", "C13.spawn.accepted_full_formation", format!("spawn accepted although a formation on {:?} was full", cx.names_of(&acts)));
                    }
                    if before.vehicles.contains_key(&v) || before.dummies.contains_key(&v) || !v.is_real() {
                        cx.v("C13", "C13.spawn.id_not_fresh", format!("spawn returned id {} which already existed", v));
                    }
                    match after.vehicles.get(&v) {
                        None => cx.v("C13", "C13.spawn.vehicle_missing", format!("spawn returned {} but it is not in the schedule", v)),
                        Some((t2, ns)) => {
                            if *t2 != vt {
                                cx.v("C13", "C13.spawn.type", format!("spawned {} has type {}, asked {}", v, t2, vt));
                            }
                            if non_depots(&cx.ad, ns) != acts {
                                cx.v("C13", "C13.spawn.activities", format!("spawned {} serves {:?}, asked {:?}", v, cx.names_of(ns), cx.names_of(&nodes_arg)));
                            }
                            let first = nodes_arg[0];
                            let given_start = cx.ad.nw.node(first).is_start_depot();
                            let had_room = given_start && depot_has_room(cx, &before, first, vt, None);
                            if given_start && had_room && ns.first() != Some(&first) {
                                cx.v("C13", "C13.spawn.given_start_depot_ignored", format!("spawn: start depot {} had room but {} starts at {}", cx.name(first), v, cx.name(ns[0])));
                            }
                            if !ns.is_empty() && !depot_has_room(cx, &before, ns[0], vt, None) {
                                cx.v("C13", "C13.spawn.start_depot_without_room", format!("spawn: {} starts at {} which has no room", v, cx.name(ns[0])));
                            }
                            let last = *nodes_arg.last().unwrap();
                            if cx.ad.nw.node(last).is_end_depot() && (!given_start || had_room) && ns.last() != Some(&last) {
                                cx.v("C13", "C13.spawn.given_end_depot_ignored", format!("spawn: end depot {} given but {} ends at {:?}", cx.name(last), v, ns.last().map(|n| cx.name(*n))));
                            }
                        }
                    }
                    for n in &acts {
                        check_formation(cx, "spawn", &after, *n, &with_tail(&before.formations[n], v));
                    }
                    let tn: BTreeSet<NodeIdx> = acts.iter().copied().collect();
                    check_frame(cx, "spawn", &before, &after, &BTreeSet::new(), &tn, &[v].into_iter().collect());
                    new_state = Some(s2);
                }
            }
        }
        // ------------------------------------------------------------------------------------
        "spawn_replace_dummy" => {
            let (d, vt) = match (veh("dummy"), op["vt"].as_str().and_then(|t| type_by_name(cx, t))) {
                (Some(d), Some(t)) => (d, t),
                _ => skip!(),
            };
            let is_dummy = before.dummies.contains_key(&d);
            let nodes = before.dummies.get(&d).cloned().unwrap_or_default();
            let mismatch = nodes.iter().any(|n| !compatible(cx, *n, vt));
            let full = nodes.iter().any(|n| formation_full(cx, &before, *n)) || !is_path(&cx.ad, &cx.inst, &nodes);
            match guarded(|| s.spawn_vehicle_to_replace_dummy_tour(d, vt)) {
                Err(p) => cx.v("C13", &format!("C13.spawn_replace_dummy.panic:{}", panic_signature(&p)), format!("spawn_vehicle_to_replace_dummy_tour({}, {}) panicked: {}", d, vt, p)),
                Ok(Err(e)) => {
                    refused = true;
                    if is_dummy && !mismatch && !full {
                        cx.v("C13", "C13.spawn_replace_dummy.refused_valid", format!("spawn_vehicle_to_replace_dummy_tour({}, {}) refused: {}", d, vt, e));
                    }
                }
                Ok(Ok((s2, v))) => {
                    let after = snap(&cx.ad, &s2);
                    if !is_dummy || mismatch || full {
                        cx.v("C13", "C13.spawn_replace_dummy.accepted_invalid", format!("accepted although dummy={} mismatch={} full={}", is_dummy, mismatch, full));
                    }
                    if after.dummies.contains_key(&d) {
                        cx.v("C13", "C13.spawn_replace_dummy.dummy_stays", format!("{} still exists", d));
                    }
                    match after.vehicles.get(&v) {
                        Some((t2, ns)) if *t2 == vt && non_depots(&cx.ad, ns) == nodes => {}
                        x => cx.v("C13", "C13.spawn_replace_dummy.activities", format!("new {} is {:?}, expected type {} serving {:?}", v, x.map(|y| cx.names_of(&y.1)), vt, cx.names_of(&nodes))),
                    }
                    for n in &nodes {
                        check_formation(cx, "spawn_replace_dummy", &after, *n, &with_tail(&before.formations[n], v));
                    }
                    let tn: BTreeSet<NodeIdx> = nodes.iter().copied().collect();
                    check_frame(cx, "spawn_replace_dummy", &before, &after, &[d].into_iter().collect(), &tn, &[v].into_iter().collect());
                    new_state = Some(s2);
                }
            }
        }
        // ------------------------------------------------------------------------------------
        "replace_by_dummy" => {
            let v = match veh("v") {
                Some(v) => v,
                None => skip!(),
            };
            let is_real = before.vehicles.contains_key(&v);
            match guarded(|| s.replace_vehicle_by_dummy(v)) {
                Err(p) => cx.v("C13", &format!("C13.replace_by_dummy.panic:{}", panic_signature(&p)), format!("replace_vehicle_by_dummy({}) panicked: {}", v, p)),
                Ok(Err(e)) => {
                    refused = true;
                    if is_real {
                        cx.v("C13", "C13.replace_by_dummy.refused_valid", format!("replace_vehicle_by_dummy({}) refused: {}", v, e));
                    }
                }
                Ok(Ok(s2)) => {
                    let after = snap(&cx.ad, &s2);
                    if !is_real {
                        cx.v("C13", "C13.replace_by_dummy.accepted_non_vehicle", format!("accepted for {}", v));
                    } else {
                        let acts = before.acts(&cx.ad, v);
                        if after.vehicles.contains_key(&v) {
                            cx.v("C13", "C13.replace_by_dummy.vehicle_stays", format!("{} still exists", v));
                        }
                        let mut new_ids = BTreeSet::new();
                        check_new_dummy(cx, "replace_by_dummy", &before, &after, &service_only(cx, &acts), &mut new_ids);
                        for n in &acts {
                            check_formation(cx, "replace_by_dummy", &after, *n, &without(&before.formations[n], v));
                        }
                        let tn: BTreeSet<NodeIdx> = acts.iter().copied().collect();
                        check_frame(cx, "replace_by_dummy", &before, &after, &[v].into_iter().collect(), &tn, &new_ids);
                    }
                    new_state = Some(s2);
                }
            }
        }
        // ------------------------------------------------------------------------------------
        "add_path" => {
            let v = match veh("v") {
                Some(v) if before.vehicles.contains_key(&v) => v,
                _ => skip!(),
            };
            let (vt, tour) = before.vehicles[&v].clone();
            let path = match Path::new(nodes_arg.clone(), cx.ad.nw.clone()) {
                Ok(Some(p)) => p,
                _ => skip!(),
            };
            // only leading start depot / trailing end depot are meaningful in a path
            if nodes_arg.iter().enumerate().any(|(i, n)| {
                let node = cx.ad.nw.node(*n);
                (node.is_start_depot() && i != 0) || (node.is_end_depot() && i != nodes_arg.len() - 1)
            }) {
                skip!();
            }
            let p_acts = non_depots(&cx.ad, &nodes_arg);
            let overlap = p_acts.iter().any(|n| tour.contains(n));
            let mismatch = p_acts.iter().any(|n| !compatible(cx, *n, vt));
            let full = p_acts.iter().any(|n| !tour.contains(n) && formation_full(cx, &before, *n));
            let first = nodes_arg[0];
            let depot_full = cx.ad.nw.node(first).is_start_depot() && first != tour[0] && !depot_has_room(cx, &before, first, vt, Some(v));
            let (exp_tour, exp_dropped) = ref_insert(&cx.ad, &cx.inst, &tour, false, &nodes_arg);
            match guarded(|| s.add_path_to_vehicle_tour(v, path)) {
                Err(p) => cx.v("C13", &format!("C13.add_path.panic:{}", panic_signature(&p)), format!("add_path_to_vehicle_tour({}, {:?}) panicked: {}", v, cx.names_of(&nodes_arg), p)),
                Ok(Err(e)) => {
                    refused = true;
                    if !mismatch && !full && !depot_full && !overlap {
                        cx.v("C13", "C13.add_path.refused_valid", format!("add_path_to_vehicle_tour({}, {:?}) refused: {}", v, cx.names_of(&nodes_arg), e));
                    }
                }
                Ok(Ok((s2, ret))) => {
                    let after = snap(&cx.ad, &s2);
                    if mismatch {
                        cx.v("C13", "C13.add_path.accepted_foreign_type", format!("accepted {:?} for {}", cx.names_of(&nodes_arg), v));
                    }
                    if full {
                        cx.v("C13", "C13.add_path.accepted_full_formation", format!("accepted {:?} although a formation was full", cx.names_of(&nodes_arg)));
                    }
                    if depot_full {
                        cx.v("C13", "C13.add_path.accepted_full_depot", format!("accepted new start depot {} without room", cx.name(first)));
                    }
                    let got_tour = after.vehicles.get(&v).map(|x| x.1.clone()).unwrap_or_default();
                    if got_tour != exp_tour {
                        cx.v(
                            "C12",
                            if exp_dropped.is_empty() { "C12.insert_no_conflict" } else { "C12.insert_conflict" },
                            format!("insert {:?} into {:?}: got {:?}, reference {:?}", cx.names_of(&nodes_arg), cx.names_of(&tour), cx.names_of(&got_tour), cx.names_of(&exp_tour)),
                        );
                    }
                    let ret_nodes: Vec<NodeIdx> = ret.map(|p| p.iter().collect()).unwrap_or_default();
                    if non_depots(&cx.ad, &ret_nodes) != non_depots(&cx.ad, &exp_dropped) {
                        cx.v(
                            "C12",
                            "C12.insert_reported_dropped",
                            format!("insert {:?} into {:?}: reported dropped {:?}, reference {:?}", cx.names_of(&nodes_arg), cx.names_of(&tour), cx.names_of(&ret_nodes), cx.names_of(&exp_dropped)),
                        );
                    }
                    if !overlap {
                        let dropped = non_depots(&cx.ad, &exp_dropped);
                        for n in &p_acts {
                            check_formation(cx, "add_path", &after, *n, &with_tail(&before.formations[n], v));
                        }
                        for n in &dropped {
                            check_formation(cx, "add_path", &after, *n, &without(&before.formations[n], v));
                        }
                    } else {
                        // a path that contains nodes the vehicle already serves: the order inside the
                        // formations is not documented for this case (8.4), but the vehicle gains the
                        // path, so it runs in the formation of each of its nodes - once
                        for n in &p_acts {
                            let k = after.formations.get(n).map(|f| f.iter().filter(|x| **x == v).count()).unwrap_or(0);
                            if k != 1 {
                                cx.v(
                                    "C13",
                                    "C13.add_path.receiver_formation_membership",
                                    format!("add_path {:?} to {}: the vehicle is listed {} times in the formation of {} which is now on its tour", cx.names_of(&nodes_arg), v, k, cx.name(*n)),
                                );
                            }
                        }
                    }
                    let mut tn: BTreeSet<NodeIdx> = p_acts.iter().copied().collect();
                    tn.extend(non_depots(&cx.ad, &exp_dropped));
                    tn.extend(non_depots(&cx.ad, &ret_nodes));
                    check_frame(cx, "add_path", &before, &after, &[v].into_iter().collect(), &tn, &BTreeSet::new());
                    new_state = Some(s2);
                }
            }
        }
        // ------------------------------------------------------------------------------------
        "remove_segment" => {
            let (v, a, b) = match (veh("v"), nd(cx, "a"), nd(cx, "b")) {
                (Some(v), Some(a), Some(b)) => (v, a, b),
                _ => skip!(),
            };
            let is_real = before.vehicles.contains_key(&v);
            let tour = tour_nodes(&before, v).cloned().unwrap_or_default();
            let expect = if is_real { ref_remove(&cx.ad, &cx.inst, &tour, false, a, b) } else { RefRemove::Refuse("not a real vehicle") };
            match guarded(|| s.remove_segment(Segment::new(a, b), v)) {
                Err(p) => cx.v("C13", &format!("C13.remove_segment.panic:{}", panic_signature(&p)), format!("remove_segment([{}..{}], {}) panicked: {}", cx.name(a), cx.name(b), v, p)),
                Ok(Err(e)) => {
                    refused = true;
                    if let RefRemove::Ok(..) = expect {
                        cx.v("C12", "C12.remove_refused_valid", format!("remove [{}..{}] from {:?} refused: {}", cx.name(a), cx.name(b), cx.names_of(&tour), e));
                    }
                }
                Ok(Ok(s2)) => {
                    let after = snap(&cx.ad, &s2);
                    match expect {
                        RefRemove::Refuse(why) => cx.v(
                            "C12",
                            &format!("C12.remove_accepted_invalid:{}", why.replace(' ', "_")),
                            format!("remove [{}..{}] from {:?} of {} must be refused ({}), but was accepted", cx.name(a), cx.name(b), cx.names_of(&tour), v, why),
                        ),
                        RefRemove::Ok(rest, removed) => {
                            let mut new_ids = BTreeSet::new();
                            let all_acts = before.acts(&cx.ad, v);
                            let gone_acts: Vec<NodeIdx> = match &rest {
                                Some(r) => {
                                    if after.vehicles.get(&v).map(|x| &x.1) != Some(r) {
                                        cx.v("C12", "C12.remove_result", format!("remove [{}..{}] from {:?}: got {:?}, reference {:?}", cx.name(a), cx.name(b), cx.names_of(&tour), after.vehicles.get(&v).map(|x| cx.names_of(&x.1)), cx.names_of(r)));
                                    }
                                    non_depots(&cx.ad, &removed)
                                }
                                None => {
                                    if after.vehicles.contains_key(&v) {
                                        cx.v("C13", "C13.remove_segment.emptied_vehicle_stays", format!("{} has no activity left but still exists", v));
                                    }
                                    all_acts.clone()
                                }
                            };
                            check_new_dummy(cx, "remove_segment", &before, &after, &service_only(cx, &gone_acts), &mut new_ids);
                            for n in &gone_acts {
                                check_formation(cx, "remove_segment", &after, *n, &without(&before.formations[n], v));
                            }
                            let tn: BTreeSet<NodeIdx> = gone_acts.iter().copied().collect();
                            check_frame(cx, "remove_segment", &before, &after, &[v].into_iter().collect(), &tn, &new_ids);
                        }
                    }
                    new_state = Some(s2);
                }
            }
        }
        // ------------------------------------------------------------------------------------
        "override_reassign" | "fit_reassign" => {
            let (p, r, a, b) = match (veh("p"), veh("r"), nd(cx, "a"), nd(cx, "b")) {
                (Some(p), Some(r), Some(a), Some(b)) if p != r => (p, r, a, b),
                _ => skip!(),
            };
            let (tp, tr) = match (tour_nodes(&before, p), tour_nodes(&before, r)) {
                (Some(x), Some(y)) => (x.clone(), y.clone()),
                _ => skip!(),
            };
            let (pa, pb) = match (tp.iter().position(|n| *n == a), tp.iter().position(|n| *n == b)) {
                (Some(x), Some(y)) if x <= y => (x, y),
                _ => skip!(), // valid arguments: segment end points on the provider's tour, in order
            };
            let m: Vec<NodeIdx> = tp[pa..=pb].to_vec();
            let p_real = before.vehicles.contains_key(&p);
            let r_real = before.vehicles.contains_key(&r);
            let rt = before.vehicles.get(&r).map(|x| x.0);
            let pt = before.vehicles.get(&p).map(|x| x.0);
            let mismatch = match rt {
                Some(t) => pt != Some(t) && m.iter().any(|n| !compatible(cx, *n, t)),
                None => false,
            };
            // depots inside a segment make sense only when the receiver is real
            if !r_real && m.iter().any(|n| cx.ad.nw.node(*n).is_depot()) && opname == "fit_reassign" {
                skip!();
            }
            let rem = ref_remove(&cx.ad, &cx.inst, &tp, !p_real, a, b);
            let m_acts = non_depots(&cx.ad, &m);
            if m_acts.is_empty() {
                skip!(); // a segment holds at least one activity
            }
            // the receiver would start at the segment's start depot: needs room for its own type
            let cross_type_depot_full = match rt {
                Some(t) if pt != Some(t) && cx.ad.nw.node(m[0]).is_start_depot() && tr.first() != Some(&m[0]) => {
                    let mut probe = before.clone();
                    probe.vehicles.remove(&p);
                    !depot_has_room(cx, &probe, m[0], t, Some(r))
                }
                _ => false,
            };
            // nodes the receiver already serves (coupled trips): net effect on formations is not specified
            let overlap = m_acts.iter().any(|n| tr.contains(n));
            // a dummy provider may have lost its connecting slots: a segment across the gap is no path
            let segment_not_a_path = !is_path(&cx.ad, &cx.inst, &m);
            // (if the provider's tour is broken elsewhere the operation may be refused as well)
            let m_not_a_path = segment_not_a_path || !is_path(&cx.ad, &cx.inst, &tp);
            if opname == "override_reassign" {
                let only_r_real_full = r_real && !p_real && m_acts.iter().any(|n| formation_full(cx, &before, *n));
                let (exp_r, exp_dropped) = ref_insert(&cx.ad, &cx.inst, &tr, !r_real, &m);
                match guarded(|| s.override_reassign(Segment::new(a, b), p, r)) {
                    Err(pn) => cx.v("C13", &format!("C13.override_reassign.panic:{}", panic_signature(&pn)), format!("override_reassign([{}..{}], {}, {}) panicked: {}", cx.name(a), cx.name(b), p, r, pn)),
                    Ok(Err(e)) => {
                        refused = true;
                        if matches!(rem, RefRemove::Ok(..)) && !mismatch && !only_r_real_full && !cross_type_depot_full && !m_not_a_path {
                            cx.v("C13", "C13.override_reassign.refused_valid", format!("override_reassign([{}..{}], {}, {}) refused: {}", cx.name(a), cx.name(b), p, r, e));
                        }
                    }
                    Ok(Ok((s2, new_dummy))) => {
                        let after = snap(&cx.ad, &s2);
                        if mismatch {
                            cx.v("C13", "C13.override_reassign.accepted_foreign_type", format!("moved {:?} from {} to {} of another type", cx.names_of(&m), p, r));
                        }
                        if segment_not_a_path {
                            cx.v("C13", "C13.override_reassign.accepted_non_path_segment", format!("moved {:?} from {} to {} although consecutive nodes of it cannot reach each other", cx.names_of(&m), p, r));
                        }
                        match &rem {
                            RefRemove::Refuse(why) => cx.v("C12", &format!("C12.remove_accepted_invalid:{}", why.replace(' ', "_")), format!("override_reassign removed [{}..{}] from {:?} of {} which must be refused ({})", cx.name(a), cx.name(b), cx.names_of(&tp), p, why)),
                            RefRemove::Ok(rest, _) => {
                                let got_p = tour_nodes(&after, p).cloned();
                                if got_p != *rest {
                                    cx.v(
                                        "C13",
                                        if rest.is_none() { "C13.override_reassign.emptied_provider_stays" } else { "C13.override_reassign.provider_tour" },
                                        format!("provider {}: got {:?}, expected {:?}", p, got_p.map(|x| cx.names_of(&x)), rest.as_ref().map(|x| cx.names_of(x))),
                                    );
                                }
                            }
                        }
                        let got_r = tour_nodes(&after, r).cloned().unwrap_or_default();
                        if got_r != exp_r {
                            cx.v(
                                "C12",
                                if exp_dropped.is_empty() { "C12.insert_no_conflict" } else { "C12.insert_conflict" },
                                format!("override_reassign: insert {:?} into {:?} of {}: got {:?}, reference {:?}", cx.names_of(&m), cx.names_of(&tr), r, cx.names_of(&got_r), cx.names_of(&exp_r)),
                            );
                        }
                        let displaced = non_depots(&cx.ad, &exp_dropped);
                        let mut new_ids = BTreeSet::new();
                        if overlap {
                            cx.probe("override_reassign_overlap");
                            for d in after.dummies.keys().filter(|d| !before.dummies.contains_key(d)) {
                                new_ids.insert(*d);
                            }
                        } else {
                            let d = check_new_dummy(cx, "override_reassign", &before, &after, &service_only(cx, &displaced), &mut new_ids);
                            if d != new_dummy && got_r == exp_r {
                                cx.v("C13", "C13.override_reassign.returned_dummy", format!("returned dummy {:?} but the new dummy is {:?}", new_dummy, d));
                            }
                        }
                        if got_r == exp_r && !overlap {
                            for n in &m_acts {
                                let f = &before.formations[n];
                                let e = match (p_real, r_real) {
                                    (true, true) => replaced(f, p, r),
                                    (false, true) => with_tail(f, r),
                                    (true, false) => without(f, p),
                                    (false, false) => f.clone(),
                                };
                                check_formation(cx, "override_reassign", &after, *n, &e);
                            }
                            if r_real {
                                for n in &displaced {
                                    check_formation(cx, "override_reassign", &after, *n, &without(&before.formations[n], r));
                                }
                            }
                        }
                        let mut tn: BTreeSet<NodeIdx> = m_acts.iter().copied().collect();
                        tn.extend(displaced.iter().copied());
                        check_frame(cx, "override_reassign", &before, &after, &[p, r].into_iter().collect(), &tn, &new_ids);
                        new_state = Some(s2);
                    }
                }
            } else {
                match guarded(|| s.fit_reassign(Segment::new(a, b), p, r)) {
                    Err(pn) => cx.v("C13", &format!("C13.fit_reassign.panic:{}", panic_signature(&pn)), format!("fit_reassign([{}..{}], {}, {}) panicked: {}", cx.name(a), cx.name(b), p, r, pn)),
                    Ok(Err(e)) => {
                        refused = true;
                        let only_r_real_full = r_real && !p_real && m_acts.iter().any(|n| formation_full(cx, &before, *n));
                        if !mismatch && !only_r_real_full && !cross_type_depot_full && !m_not_a_path {
                            cx.v("C13", "C13.fit_reassign.refused_valid", format!("fit_reassign([{}..{}], {}, {}) refused: {}", cx.name(a), cx.name(b), p, r, e));
                        }
                    }
                    Ok(Ok(s2)) => {
                        let after = snap(&cx.ad, &s2);
                        if mismatch {
                            cx.v("C13", "C13.fit_reassign.accepted_foreign_type", format!("moved nodes of {:?} from {} to {} of another type", cx.names_of(&m), p, r));
                        }
                        let ap = before.acts(&cx.ad, p);
                        let ar = before.acts(&cx.ad, r);
                        let ap2 = after.acts(&cx.ad, p);
                        let ar2 = after.acts(&cx.ad, r);
                        // receiver loses none of its own, gains only nodes of the segment
                        let lost: Vec<NodeIdx> = ar.iter().copied().filter(|n| !ar2.contains(n)).collect();
                        if !lost.is_empty() {
                            cx.v("C13", "C13.fit_reassign.receiver_lost_own", format!("receiver {} lost its own {:?}", r, cx.names_of(&lost)));
                        }
                        let gained: Vec<NodeIdx> = ar2.iter().copied().filter(|n| !ar.contains(n)).collect();
                        if gained.iter().any(|n| !m_acts.contains(n)) {
                            cx.v("C13", "C13.fit_reassign.receiver_gained_foreign", format!("receiver {} gained {:?}, segment is {:?}", r, cx.names_of(&gained), cx.names_of(&m_acts)));
                        }
                        // provider loses exactly what the receiver gained
                        let gone: Vec<NodeIdx> = ap.iter().copied().filter(|n| !ap2.contains(n)).collect();
                        let mut g1 = gained.clone();
                        let mut g2 = gone.clone();
                        g1.sort();
                        g2.sort();
                        // a dummy receiver takes only service trips; slots moved to it are dropped
                        if r_real && g1 != g2 {
                            cx.v("C13", "C13.fit_reassign.moved_mismatch", format!("provider {} lost {:?} but receiver {} gained {:?}", p, cx.names_of(&gone), r, cx.names_of(&gained)));
                        }
                        if !r_real && service_only(cx, &g2) != { let mut x = service_only(cx, &g1); x.sort(); x } {
                            cx.v("C13", "C13.fit_reassign.moved_mismatch", format!("provider {} lost {:?} but dummy receiver {} gained {:?}", p, cx.names_of(&gone), r, cx.names_of(&gained)));
                        }
                        if ap2.iter().any(|n| !ap.contains(n)) {
                            cx.v("C13", "C13.fit_reassign.provider_gained", format!("provider {} gained nodes", p));
                        }
                        if ap2.is_empty() && (after.vehicles.contains_key(&p) || after.dummies.contains_key(&p)) {
                            cx.v("C13", "C13.fit_reassign.emptied_provider_stays", format!("provider {} has no activity left but still exists", p));
                        }
                        let fresh: Vec<VehicleIdx> = after.dummies.keys().chain(after.vehicles.keys()).filter(|d| !before.dummies.contains_key(d) && !before.vehicles.contains_key(d)).copied().collect();
                        if !fresh.is_empty() {
                            cx.v("C13", "C13.fit_reassign.created_vehicle_or_dummy", format!("fit_reassign created {:?}", fresh));
                        }
                        for n in &gained {
                            let f = &before.formations[n];
                            let e = match (p_real, r_real) {
                                (true, true) => replaced(f, p, r),
                                (false, true) => with_tail(f, r),
                                (true, false) => without(f, p),
                                (false, false) => f.clone(),
                            };
                            check_formation(cx, "fit_reassign", &after, *n, &e);
                        }
                        let mut tn: BTreeSet<NodeIdx> = gained.iter().copied().collect();
                        tn.extend(gone.iter().copied());
                        check_frame(cx, "fit_reassign", &before, &after, &[p, r].into_iter().collect(), &tn, &BTreeSet::new());
                        new_state = Some(s2);
                    }
                }
            }
        }
        // ------------------------------------------------------------------------------------
        "improve_depots" | "end_greedy" | "end_consistent" | "recompute_transitions" | "set_transitions" => {
            let vs: Option<Vec<VehicleIdx>> = op["vs"].as_array().map(|a| a.iter().filter_map(|x| x.as_str().and_then(parse_vehicle)).filter(|v| before.vehicles.contains_key(v)).collect());
            let types: Option<Vec<VehicleTypeIdx>> = op["types"].as_array().map(|a| a.iter().filter_map(|x| x.as_str().and_then(|t| type_by_name(cx, t))).collect());
            let mut expected_cycles: Option<BTreeMap<VehicleTypeIdx, Vec<Vec<VehicleIdx>>>> = None;
            let r: Result<Schedule, String> = match opname {
                "improve_depots" => {
                    let mut vs = vs.clone();
                    if let Some(v) = vs.as_mut() {
                        v.sort();
                        v.dedup();
                    }
                    guarded(|| s.improve_depots(vs))
                }
                "end_greedy" => guarded(|| s.reassign_end_depots_greedily()).and_then(|x| x),
                "end_consistent" => guarded(|| s.reassign_end_depots_consistent_with_transitions()),
                "recompute_transitions" => guarded(|| s.recompute_transitions_for(types.clone())),
                _ => {
                    // build a full map of transitions by editing the current ones
                    let script = op["script"].as_array().cloned().unwrap_or_default();
                    let built = guarded(|| crate::sim_b_trans::build_transitions(cx_ref(cx), s, &script));
                    match built {
                        Ok(Some((m, cyc))) => {
                            expected_cycles = Some(cyc);
                            guarded(|| s.set_next_day_transitions(m))
                        }
                        Ok(None) => skip!(),
                        Err(p) => Err(p),
                    }
                }
            };
            match r {
                Err(p) => cx.v("C13", &format!("C13.{}.panic:{}", opname, panic_signature(&p)), format!("{} panicked or failed: {}", opname, p)),
                Ok(s2) => {
                    let after = snap(&cx.ad, &s2);
                    // no activity changes anywhere
                    for (v, (_, ns)) in &before.vehicles {
                        let na = after.vehicles.get(v).map(|x| x.1.clone()).unwrap_or_default();
                        if non_depots(&cx.ad, ns) != non_depots(&cx.ad, &na) {
                            cx.v("C13", &format!("C13.{}.activities_changed", opname), format!("{}: activities of {} changed", opname, v));
                        }
                        let start_changed = ns.first() != na.first();
                        let end_changed = ns.last() != na.last();
                        let may_change_start = opname == "improve_depots" && vs.as_ref().map(|x| x.contains(v)).unwrap_or(true);
                        let may_change_end = may_change_start || opname == "end_greedy" || opname == "end_consistent";
                        if (start_changed && !may_change_start) || (end_changed && !may_change_end) {
                            cx.v("C13", &format!("C13.{}.depot_of_other_vehicle_changed", opname), format!("{}: depots of {} changed from ({},{}) to ({:?},{:?})", opname, v, cx.name(ns[0]), cx.name(*ns.last().unwrap()), na.first().map(|n| cx.name(*n)), na.last().map(|n| cx.name(*n))));
                        }
                    }
                    if before.vehicles.keys().collect::<Vec<_>>() != after.vehicles.keys().collect::<Vec<_>>() || before.dummies != after.dummies || before.formations != after.formations {
                        cx.v("C13", &format!("C13.{}.vehicles_or_formations_changed", opname), format!("{}: vehicle set, dummies or formations changed", opname));
                    }
                    match opname {
                        "end_consistent" => {
                            if before.cycles != after.cycles {
                                cx.probe("end_consistent_changed_cycles"); // not documented either way; alignment is checked against the cycles after the call
                            }
                            for cs in after.cycles.values() {
                                for c in cs {
                                    for i in 0..c.len() {
                                        let (v, w) = (c[i], c[(i + 1) % c.len()]);
                                        if let (Some(x), Some(y)) = (after.vehicles.get(&v), after.vehicles.get(&w)) {
                                            let e = x.1.last().and_then(|n| cx.ad.depot_ref_of_node(*n));
                                            let st = y.1.first().and_then(|n| cx.ad.depot_ref_of_node(*n));
                                            if e != st {
                                                cx.v("C13", "C13.end_consistent.not_aligned", format!("{} ends in {:?} but its successor {} starts in {:?}", v, e, w, st));
                                            }
                                        }
                                    }
                                }
                            }
                        }
                        "recompute_transitions" => {
                            for (vt, cs) in &before.cycles {
                                let named = types.as_ref().map(|t| t.contains(vt)).unwrap_or(true);
                                if !named && after.cycles.get(vt) != Some(cs) {
                                    cx.v("C13", "C13.recompute_transitions.other_type_changed", format!("cycles of unnamed type {} changed", vt));
                                }
                            }
                        }
                        "set_transitions" => {
                            if let Some(e) = &expected_cycles {
                                let norm = |m: &BTreeMap<VehicleTypeIdx, Vec<Vec<VehicleIdx>>>| -> BTreeMap<VehicleTypeIdx, Vec<Vec<VehicleIdx>>> {
                                    m.iter()
                                        .map(|(k, cs)| {
                                            let mut v: Vec<Vec<VehicleIdx>> = cs
                                                .iter()
                                                .filter(|c| !c.is_empty())
                                                .map(|c| {
                                                    let i = (0..c.len()).min_by_key(|&i| c[i]).unwrap();
                                                    let mut r = c[i..].to_vec();
                                                    r.extend_from_slice(&c[..i]);
                                                    r
                                                })
                                                .collect();
                                            v.sort();
                                            (*k, v)
                                        })
                                        .collect()
                                };
                                if norm(e) != norm(&after.cycles) {
                                    cx.v("C13", "C13.set_transitions.cycles", format!("cycles after set_next_day_transitions are {:?}, given {:?}", after.cycles, e));
                                }
                            }
                        }
                        "improve_depots" if vs.is_some() => {
                            if before.cycles != after.cycles {
                                cx.probe("improve_depots_some_changed_cycles"); // not documented either way
                            }
                        }
                        _ => {}
                    }
                    new_state = Some(s2);
                }
            }
        }
        // ------------------------------------------------------------------------------------
        "swap" => {
            let r = crate::sim_b_walk::pick_candidate(cx, s, op);
            match r {
                Some(s2) => new_state = Some(s2),
                None => skip!(),
            }
        }
        // ------------------------------------------------------------------------------------
        "tour_insert" | "tour_remove" | "tour_sub_path" | "tour_conflict" => {
            crate::sim_b_tour::tour_call(cx, s, &before, op);
            cx.ops_done.push(op.clone());
            cx.steps += 1;
            cx.ok_kinds.insert(kind.clone());
            cx.ok_ops += 1;
            return s.clone();
        }
        _ => skip!(),
    }
    cx.ops_done.push(op.clone());
    cx.steps += 1;
    // the input schedule is untouched (persistent data structure)
    let again = snap(&cx.ad, s);
    if again != before {
        cx.v("C13", &format!("C13.{}.input_schedule_modified", opname), format!("{} modified the schedule it was called on", opname));
    }
    if refused {
        cx.refused_ops += 1;
        cx.probe(&format!("refused_{}", opname));
    }
    match new_state {
        Some(s2) => {
            cx.ok_ops += 1;
            cx.ok_kinds.insert(kind.clone());
            cx.probe(&format!("ok_{}", opname));
            let sn = snap(&cx.ad, &s2);
            let ctx = format!("after op #{} {}", cx.ops_done.len(), op);
            let (ad, inst) = (&cx.ad, &cx.inst);
            let mut tmp = vec![];
            check_c10(ad, inst, &s2, &sn, &ctx, &mut tmp);
            check_c09(ad, inst, &s2, &sn, &ctx, true, &mut tmp);
            // every check id once per run is enough
            for v in tmp {
                if !cx.out.iter().any(|o| o.check == v.check) {
                    cx.out.push(v);
                }
            }
            if sn.vehicles.values().any(|(_, ns)| ns.first().and_then(|n| cx.ad.depot_ref_of_node(*n)) == Some(DepotRef::Overflow)) {
                cx.probe("state_with_overflow_tour");
            }
            s2
        }
        None => s.clone(),
    }
}

fn cx_ref(cx: &Ctx) -> &Ctx {
    cx
}

// -------------------------------------------------------------------------------------------
// generating operations from the current state
// -------------------------------------------------------------------------------------------

fn random_path(cx: &Ctx, rng: &mut Rng, vt: VehicleTypeIdx, max_len: usize, with_depots: bool) -> Vec<NodeIdx> {
    let cands: Vec<NodeIdx> = cx.ad.node_to_act.keys().copied().filter(|n| compatible(cx, *n, vt)).collect();
    if cands.is_empty() {
        return vec![];
    }
    let mut path = vec![*rng.pick(&cands)];
    while path.len() < max_len && rng.chance(3, 5) {
        let last = *path.last().unwrap();
        let next: Vec<NodeIdx> = cands.iter().copied().filter(|n| reach(&cx.ad, &cx.inst, last, *n)).collect();
        if next.is_empty() {
            break;
        }
        // prefer early successors (ties, back-to-back)
        let mut next = next;
        next.sort_by_key(|n| cx.inst.acts[cx.ad.node_to_act[n]].start);
        let k = rng.usize(next.len().min(3));
        path.push(next[k]);
    }
    if with_depots {
        let starts: Vec<NodeIdx> = cx.ad.nw.start_depot_nodes().collect();
        let ends: Vec<NodeIdx> = cx.ad.nw.end_depot_nodes().collect();
        if rng.chance(1, 3) {
            path.insert(0, *rng.pick(&starts));
        }
        if rng.chance(1, 3) {
            path.push(*rng.pick(&ends));
        }
    }
    path
}

fn random_segment(cx: &Ctx, rng: &mut Rng, tour: &[NodeIdx], allow_depots: bool) -> Option<(NodeIdx, NodeIdx)> {
    if tour.is_empty() {
        return None;
    }
    let is_depot = |i: usize| cx.ad.nw.node(tour[i]).is_depot();
    let idx: Vec<usize> = (0..tour.len()).filter(|&i| allow_depots || !is_depot(i)).collect();
    if idx.is_empty() {
        return None;
    }
    let i = *rng.pick(&idx);
    let later: Vec<usize> = idx.iter().copied().filter(|&j| j >= i).collect();
    let j = if rng.chance(1, 3) { i } else { *rng.pick(&later) };
    if rng.chance(1, 8) {
        // whole tour
        return Some((tour[idx[0]], tour[*idx.last().unwrap()]));
    }
    Some((tour[i], tour[j]))
}

pub fn gen_op(cx: &Ctx, rng: &mut Rng, s: &Schedule, focus: &str) -> Value {
    let sn = snap(&cx.ad, s);
    let reals: Vec<VehicleIdx> = sn.vehicles.keys().copied().collect();
    let dummies: Vec<VehicleIdx> = sn.dummies.keys().copied().collect();
    let all: Vec<VehicleIdx> = reals.iter().chain(dummies.iter()).copied().collect();
    let types: Vec<VehicleTypeIdx> = cx.ad.ref_to_type.clone();
    // weights
    let mut w: Vec<(&str, u32)> = vec![
        ("spawn", if reals.len() < 3 { 30 } else { 10 }),
        ("spawn_replace_dummy", if dummies.is_empty() { 1 } else { 8 }),
        ("replace_by_dummy", if reals.is_empty() { 1 } else { 6 }),
        ("add_path", if reals.is_empty() { 0 } else { 14 }),
        ("remove_segment", if reals.is_empty() { 0 } else { 12 }),
        ("override_reassign", if all.len() < 2 { 0 } else { 16 }),
        ("fit_reassign", if all.len() < 2 { 0 } else { 12 }),
        ("improve_depots", if reals.is_empty() { 0 } else { 6 }),
        ("end_greedy", 2),
        ("end_consistent", 4),
        ("recompute_transitions", 3),
        ("set_transitions", if reals.len() < 2 { 0 } else { 5 }),
        ("swap", if reals.is_empty() { 0 } else { 8 }),
        ("tour_insert", if all.is_empty() { 0 } else { 4 }),
        ("tour_remove", if all.is_empty() { 0 } else { 3 }),
        ("tour_sub_path", if all.is_empty() { 0 } else { 3 }),
        ("tour_conflict", if all.is_empty() { 0 } else { 2 }),
    ];
    if focus == "C12" {
        for x in w.iter_mut() {
            if x.0.starts_with("tour_") && x.1 > 0 {
                x.1 *= 8;
            }
            if x.0 == "add_path" || x.0 == "remove_segment" || x.0 == "override_reassign" {
                x.1 *= 2;
            }
        }
    }
    let k = rng.weighted(&w.iter().map(|x| x.1).collect::<Vec<_>>());
    let kind = w[k].0;
    let vname = |v: VehicleIdx| v.to_string();
    match kind {
        "spawn" => {
            let vt = *rng.pick(&types);
            // sometimes a foreign type on purpose
            let path_t = if rng.chance(1, 12) { *rng.pick(&types) } else { vt };
            let path = random_path(cx, rng, path_t, 4, true);
            json!({"op": "spawn", "vt": type_name(cx, vt), "nodes": cx.names_of(&path)})
        }
        "spawn_replace_dummy" => {
            let d = if dummies.is_empty() || rng.chance(1, 10) { all.first().copied().unwrap_or(VehicleIdx::dummy_from(999)) } else { *rng.pick(&dummies) };
            let vt = match sn.dummies.get(&d).and_then(|ns| ns.first()).and_then(|n| cx.ad.node_to_act.get(n)).and_then(|a| cx.inst.acts[*a].vtype) {
                Some(t) if !rng.chance(1, 10) => cx.ad.ref_to_type[t],
                _ => *rng.pick(&types),
            };
            json!({"op": "spawn_replace_dummy", "dummy": vname(d), "vt": type_name(cx, vt)})
        }
        "replace_by_dummy" => {
            let v = if rng.chance(1, 10) && !dummies.is_empty() { *rng.pick(&dummies) } else if reals.is_empty() { VehicleIdx::vehicle_from(999) } else { *rng.pick(&reals) };
            json!({"op": "replace_by_dummy", "v": vname(v)})
        }
        "add_path" => {
            let v = *rng.pick(&reals);
            let vt = sn.vehicles[&v].0;
            let pt = if rng.chance(1, 12) { *rng.pick(&types) } else { vt };
            let path = random_path(cx, rng, pt, 3, true);
            json!({"op": "add_path", "v": vname(v), "nodes": cx.names_of(&path)})
        }
        "remove_segment" => {
            let v = if rng.chance(1, 15) && !dummies.is_empty() { *rng.pick(&dummies) } else { *rng.pick(&reals) };
            let tour = tour_nodes(&sn, v).cloned().unwrap_or_default();
            let allow = rng.draws % 5 == 0;
            match random_segment(cx, rng, &tour, allow) {
                Some((a, b)) => json!({"op": "remove_segment", "v": vname(v), "a": cx.name(a), "b": cx.name(b)}),
                None => json!({"op": "end_consistent"}),
            }
        }
        "override_reassign" | "fit_reassign" => {
            let p = *rng.pick(&all);
            let others: Vec<VehicleIdx> = all.iter().copied().filter(|x| *x != p).collect();
            // prefer a receiver of the same type
            let same: Vec<VehicleIdx> = others.iter().copied().filter(|x| sn.vehicles.get(x).map(|y| Some(y.0)) == sn.vehicles.get(&p).map(|y| Some(y.0)) || x.is_dummy()).collect();
            let r = if !same.is_empty() && rng.chance(4, 5) { *rng.pick(&same) } else { *rng.pick(&others) };
            let tour = tour_nodes(&sn, p).cloned().unwrap_or_default();
            let allow_depots = p.is_real() && rng.chance(1, 4);
            match random_segment(cx, rng, &tour, allow_depots) {
                Some((a, b)) => json!({"op": kind, "p": vname(p), "r": vname(r), "a": cx.name(a), "b": cx.name(b)}),
                None => json!({"op": "end_consistent"}),
            }
        }
        "improve_depots" => {
            if rng.chance(1, 3) {
                json!({"op": "improve_depots"})
            } else {
                let n = rng.range(1, reals.len().min(3) as i64) as usize;
                let mut vs = reals.clone();
                rng.shuffle(&mut vs);
                vs.truncate(n);
                json!({"op": "improve_depots", "vs": vs.iter().map(|v| vname(*v)).collect::<Vec<_>>()})
            }
        }
        "end_greedy" => json!({"op": "end_greedy"}),
        "end_consistent" => json!({"op": "end_consistent"}),
        "recompute_transitions" => {
            if rng.chance(1, 2) {
                json!({"op": "recompute_transitions"})
            } else {
                json!({"op": "recompute_transitions", "types": [type_name(cx, *rng.pick(&types))]})
            }
        }
        "set_transitions" => {
            let script = crate::sim_b_trans::gen_script(cx, rng, s, 4);
            json!({"op": "set_transitions", "script": script})
        }
        "swap" => json!({"op": "swap", "kind": rng.usize(4), "pick": rng.next_u64() % 100_000}),
        "tour_insert" => {
            let v = *rng.pick(&all);
            let vt = sn.vehicles.get(&v).map(|x| x.0).unwrap_or_else(|| {
                sn.dummies.get(&v).and_then(|ns| ns.first()).and_then(|n| cx.ad.node_to_act.get(n)).and_then(|a| cx.inst.acts[*a].vtype).map(|t| cx.ad.ref_to_type[t]).unwrap_or(types[0])
            });
            let path = random_path(cx, rng, vt, 3, v.is_real());
            json!({"op": "tour_insert", "v": vname(v), "nodes": cx.names_of(&path)})
        }
        _ => {
            let v = *rng.pick(&all);
            let tour = tour_nodes(&sn, v).cloned().unwrap_or_default();
            let allow = v.is_real() && rng.chance(1, 3);
            match random_segment(cx, rng, &tour, allow) {
                Some((a, b)) => json!({"op": kind, "v": vname(v), "a": cx.name(a), "b": cx.name(b)}),
                None => json!({"op": "end_consistent"}),
            }
        }
    }
}

pub fn start_state(cx: &mut Ctx, mode: &str) -> Schedule {
    let nw = cx.ad.nw.clone();
    match mode {
        "mcf" | "mcf_improved" => {
            let r = guarded(|| {
                let s = solver::min_cost_flow_solver::MinCostFlowSolver::initialize(nw.clone()).solve();
                if mode == "mcf_improved" {
                    s.improve_depots(None)
                } else {
                    s
                }
            });
            match r {
                Ok(s) => s,
                Err(p) => {
                    cx.probe(&format!("start_state_panicked_mcf:{}", panic_signature(&p)));
                    Schedule::empty(nw)
                }
            }
        }
        "greedy" => {
            // one vehicle per required unit of every service trip, through the public API
            let mut s = Schedule::empty(nw.clone());
            for a in 0..cx.inst.acts.len() {
                if cx.inst.acts[a].kind != ActKind::Service {
                    continue;
                }
                let n = cx.ad.act_to_node[a];
                let vt = cx.ad.ref_to_type[cx.inst.acts[a].vtype.unwrap()];
                for _ in 0..cx.inst.served(a) {
                    if let Ok(Ok((s2, _))) = guarded(|| s.spawn_vehicle_for_path(vt, vec![n])) {
                        s = s2;
                    }
                }
            }
            s
        }
        _ => Schedule::empty(nw),
    }
}

pub fn exec_case(case: &Value, want: &BTreeSet<String>) -> Value {
    let instance = case["instance"].clone();
    let inst = match RefInstance::parse(&instance) {
        Ok(i) => i,
        Err(e) => return json!({"outcome": "invalid_case", "panic": e, "violations": []}),
    };
    let hash_key = case["hash_key"].as_u64().unwrap_or(0);
    let workers = case["workers"].as_u64().unwrap_or(1) as usize;
    // (see sim_a.rs: a run with process history stays on one pool thread)
    let workers = if case.get("prelude").map(|p| p.is_object()).unwrap_or(false) { 1 } else { workers };
    let case2 = case.clone();
    let want2 = want.clone();
    let r = run_isolated(hash_key, workers, move || run_inner(&case2, inst, &want2));
    match r {
        Ok(v) => v,
        Err(p) => json!({
            "outcome": "panic", "panic": p,
            "violations": [{"prop": "C06", "check": format!("C06.simb_setup_panic:{}", panic_signature(&p)), "msg": format!("SIM-B set-up (load / start state) panicked: {}", p)}],
            "digest": digest_str(&p),
        }),
    }
}

fn run_inner(case: &Value, inst: RefInstance, _want: &BTreeSet<String>) -> Value {
    let had_prelude = match case.get("prelude").filter(|p| p.is_object()) {
        Some(p) => {
            crate::prelude::run(p, false);
            true
        }
        None => false,
    };
    let nw = match guarded(|| load_rolling_stock_problem_instance_from_json(case["instance"].clone())) {
        Ok(n) => n,
        Err(p) => return json!({"outcome": "not_evaluated", "panic": p, "violations": [], "digest": ""}),
    };
    let ad = match Adapter::new(&inst, nw.clone()) {
        Ok(a) => a,
        Err(e) => return json!({"outcome": "ok", "violations": [{"prop": "C17", "check": "C17.identity", "msg": e}], "digest": ""}),
    };
    let mut names = BTreeMap::new();
    for n in nw.all_nodes() {
        names.insert(nw.node(n).id().to_string(), n);
    }
    let mut cx = Ctx {
        inst,
        ad,
        names,
        out: vec![],
        probes: BTreeMap::new(),
        ops_done: vec![],
        ok_kinds: BTreeSet::new(),
        ok_ops: 0,
        refused_ops: 0,
        steps: 0,
        log: String::new(),
    };
    let focus = case["focus"].as_str().unwrap_or("C09").to_string();
    let mode = case["mode"].as_str().unwrap_or("ops").to_string();
    if had_prelude {
        cx.probe("another_instance_solved_before_on_the_same_threads");
    }
    let mut s = start_state(&mut cx, case["start"].as_str().unwrap_or("empty"));
    {
        let sn = snap(&cx.ad, &s);
        let mut tmp = vec![];
        check_c10(&cx.ad, &cx.inst, &s, &sn, "start state", &mut tmp);
        check_c09(&cx.ad, &cx.inst, &s, &sn, "start state", true, &mut tmp);
        cx.out.extend(tmp);
    }
    let mut nontrivial = false;
    match mode.as_str() {
        "walk" => {
            nontrivial = crate::sim_b_walk::run_walk(&mut cx, &mut s, case);
        }
        "trans" => {
            nontrivial = crate::sim_b_trans::run_trans(&mut cx, &s, case);
        }
        "trans_exhaust" => {
            let n = crate::sim_b_trans::run_trans_exhaust(&mut cx, &s, 3);
            cx.steps += n;
            cx.log.push_str(&format!("trans_exhaust:{}", n));
            nontrivial = n >= 100;
        }
        "exhaust" => {
            let n = crate::sim_b_tour::run_exhaust(&mut cx);
            cx.steps += n;
            cx.log.push_str(&format!("exhaust:{}", n));
            nontrivial = n >= 50;
        }
        _ => {
            let given: Option<Vec<Value>> = case["ops"].as_array().cloned();
            let n_ops = case["n_ops"].as_u64().unwrap_or(10) as usize;
            let mut rng = Rng::new(case["ops_seed"].as_u64().unwrap_or(0));
            let count = given.as_ref().map(|g| g.len()).unwrap_or(n_ops);
            for i in 0..count {
                let op = match &given {
                    Some(g) => g[i].clone(),
                    None => gen_op(&cx, &mut rng, &s, &focus),
                };
                let before_viol = cx.out.len();
                s = apply_op(&mut cx, &s, &op);
                cx.log.push_str(&format!("{}|", op));
                if cx.out.len() > before_viol && given.is_none() {
                    break; // stop at the first violating operation: the prefix is the replay
                }
            }
        }
    }
    if mode == "ops" {
        nontrivial = cx.ok_ops >= 3 && cx.ok_kinds.len() >= 2;
    }
    let mut nt = serde_json::Map::new();
    for p in ["C09", "C10", "C11", "C12", "C13", "C15"] {
        nt.insert(p.to_string(), json!(nontrivial));
    }
    let final_canon = snap(&cx.ad, &s).canon();
    let digest = digest_str(&format!("{}#{}#{}", case["instance"], cx.log, final_canon));
    let mut res = json!({
        "outcome": "ok",
        "violations": cx.out.iter().map(|v| json!({"prop": v.prop, "check": v.check, "msg": v.msg})).collect::<Vec<_>>(),
        "probes": cx.probes,
        "nontrivial": nt,
        "digest": digest,
        "steps": cx.steps,
        "stats": {"ops_ok": cx.ok_ops, "ops_refused": cx.refused_ops, "kinds": cx.ok_kinds},
    });
    if !cx.out.is_empty() && case.get("ops").is_none() && (mode == "ops" || mode == "trans") {
        let mut c = case.clone();
        c["ops"] = Value::Array(cx.ops_done.clone());
        res["case_override"] = c;
    }
    if !cx.out.is_empty() && mode == "walk" {
        let mut c = case.clone();
        c["n_ops"] = json!(cx.steps.max(1));
        res["case_override"] = c;
    }
    res
}
