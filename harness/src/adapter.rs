//! Bridge between repo objects and REF: identity is by the instance's own string ids.
//! Only public getters of the repo are used.

use crate::refmodel::*;
use model::base_types::{DepotIdx, NodeIdx, VehicleIdx, VehicleTypeIdx, INF_DISTANCE};
use model::network::Network;
use solution::Schedule;
use std::collections::BTreeMap;
use std::sync::Arc;

pub struct Adapter {
    pub nw: Arc<Network>,
    pub node_to_act: BTreeMap<NodeIdx, usize>,
    pub act_to_node: Vec<NodeIdx>,
    pub depot_to_ref: BTreeMap<DepotIdx, DepotRef>,
    pub type_to_ref: BTreeMap<VehicleTypeIdx, usize>,
    pub ref_to_type: Vec<VehicleTypeIdx>,
    pub conv: OverflowConvention,
}

#[derive(Clone, Debug, PartialEq, Eq)]
pub struct Cached {
    pub unserved: u64,
    pub violation: i64,
    pub vehicles: u64,
    pub costs: u64,
}

impl Cached {
    pub fn vector(&self) -> Vec<i64> {
        vec![self.unserved as i64, self.violation, self.vehicles as i64, self.costs as i64]
    }
}

impl Adapter {
    pub fn new(inst: &RefInstance, nw: Arc<Network>) -> Result<Adapter, String> {
        let mut node_to_act = BTreeMap::new();
        let mut act_to_node = vec![None; inst.acts.len()];
        for n in nw.coverable_nodes() {
            let id = nw.node(n).id().to_string();
            let a = *inst
                .act_by_id
                .get(&id)
                .ok_or_else(|| format!("network node {} has no counterpart in the instance", id))?;
            if node_to_act.insert(n, a).is_some() || act_to_node[a].is_some() {
                return Err(format!("activity {} appears twice in the network", id));
            }
            act_to_node[a] = Some(n);
        }
        let act_to_node: Vec<NodeIdx> = act_to_node
            .into_iter()
            .enumerate()
            .map(|(i, x)| x.ok_or_else(|| format!("activity {} missing in the network", inst.acts[i].id)))
            .collect::<Result<_, _>>()?;
        let mut depot_to_ref = BTreeMap::new();
        let overflow = nw.overflow_depot_idxs().0;
        for d in nw.depots_iter() {
            if d == overflow {
                depot_to_ref.insert(d, DepotRef::Overflow);
            } else {
                let id = nw.get_depot(d).id().to_string();
                let r = inst
                    .depot_by_id(&id)
                    .ok_or_else(|| format!("network depot {} has no counterpart in the instance", id))?;
                depot_to_ref.insert(d, DepotRef::Real(r));
            }
        }
        let mut type_to_ref = BTreeMap::new();
        let mut ref_to_type = vec![None; inst.types.len()];
        for vt in nw.vehicle_types().iter() {
            let id = nw.vehicle_types().get(vt).unwrap().id().clone();
            let r = inst
                .type_by_id(&id)
                .ok_or_else(|| format!("network type {} has no counterpart in the instance", id))?;
            type_to_ref.insert(vt, r);
            ref_to_type[r] = Some(vt);
        }
        let ref_to_type = ref_to_type
            .into_iter()
            .map(|x| x.ok_or_else(|| "type missing in the network".to_string()))
            .collect::<Result<_, _>>()?;
        let conv = OverflowConvention {
            inf_distance: INF_DISTANCE,
            leg_seconds: nw.planning_days().in_sec().unwrap_or(0),
        };
        Ok(Adapter {
            nw,
            node_to_act,
            act_to_node,
            depot_to_ref,
            type_to_ref,
            ref_to_type,
            conv,
        })
    }

    pub fn depot_ref_of_node(&self, n: NodeIdx) -> Option<DepotRef> {
        if !self.nw.node(n).is_depot() {
            return None;
        }
        self.depot_to_ref.get(&self.nw.get_depot_idx(n)).copied()
    }

    pub fn vehicle_data(&self, s: &Schedule, v: VehicleIdx) -> Result<VehData, String> {
        let tour = s.tour_of(v)?;
        let nodes: Vec<NodeIdx> = tour.all_nodes_iter().collect();
        if nodes.len() < 2 {
            return Err(format!("{}: tour with fewer than two nodes", v));
        }
        let start = self
            .depot_ref_of_node(nodes[0])
            .ok_or_else(|| format!("{}: tour does not start at a depot", v))?;
        if !self.nw.node(nodes[0]).is_start_depot() {
            return Err(format!("{}: first node is not a start depot", v));
        }
        let end = self
            .depot_ref_of_node(*nodes.last().unwrap())
            .ok_or_else(|| format!("{}: tour does not end at a depot", v))?;
        if !self.nw.node(*nodes.last().unwrap()).is_end_depot() {
            return Err(format!("{}: last node is not an end depot", v));
        }
        let mut acts = vec![];
        for n in &nodes[1..nodes.len() - 1] {
            acts.push(
                *self
                    .node_to_act
                    .get(n)
                    .ok_or_else(|| format!("{}: depot node {} in the middle of a tour", v, n))?,
            );
        }
        let vt = s.vehicle_type_of(v)?;
        Ok(VehData {
            id: v.to_string(),
            vtype: self.type_to_ref[&vt],
            start,
            end,
            acts,
        })
    }

    /// schedule as data through public getters only
    pub fn sched_data(&self, s: &Schedule) -> Result<SchedData, String> {
        let mut sd = SchedData::default();
        sd.cycles = vec![vec![]; self.ref_to_type.len()];
        for (r, &vt) in self.ref_to_type.iter().enumerate() {
            for v in s.vehicles_iter(vt) {
                sd.vehicles.push(self.vehicle_data(s, v)?);
            }
            for c in s.next_day_transition_of(vt).cycles_iter() {
                sd.cycles[r].push(c.iter().map(|v| v.to_string()).collect());
            }
        }
        for (&n, &a) in &self.node_to_act {
            sd.formations
                .insert(a, s.train_formation_of(n).ids().iter().map(|v| v.to_string()).collect());
        }
        Ok(sd)
    }

    pub fn cached(&self, s: &Schedule) -> Cached {
        let u = s.unserved_passengers();
        Cached {
            unserved: u.0 as u64 + u.1 as u64,
            violation: s.maintenance_violation(),
            vehicles: s.number_of_vehicles() as u64,
            costs: s.costs(),
        }
    }
}

/// canonical text of a schedule-as-data (for digests and equality between stages)
pub fn canon(sd: &SchedData, with_cycles: bool, with_end_depots: bool) -> String {
    let mut vs: Vec<String> = sd
        .vehicles
        .iter()
        .map(|v| {
            format!(
                "{}:{}:{:?}:{}:{:?}",
                v.id,
                v.vtype,
                v.start,
                if with_end_depots { format!("{:?}", v.end) } else { "-".into() },
                v.acts
            )
        })
        .collect();
    vs.sort();
    let mut out = vs.join(";");
    out.push('|');
    for (a, f) in &sd.formations {
        out.push_str(&format!("{}={:?};", a, f));
    }
    if with_cycles {
        out.push('|');
        out.push_str(&format!("{:?}", normalized_cycles(&sd.cycles)));
    }
    out
}

/// cycles as sets of cyclic sequences: drop empty cycles, rotate each to its smallest member, sort
pub fn normalized_cycles(cycles: &[Vec<Vec<String>>]) -> Vec<Vec<Vec<String>>> {
    cycles
        .iter()
        .map(|cs| {
            let mut out: Vec<Vec<String>> = cs
                .iter()
                .filter(|c| !c.is_empty())
                .map(|c| {
                    let m = (0..c.len()).min_by_key(|&i| &c[i]).unwrap();
                    let mut r = c[m..].to_vec();
                    r.extend_from_slice(&c[..m]);
                    r
                })
                .collect();
            out.sort();
            out
        })
        .collect()
}
