#!/bin/bash
# usage: keep_mutation.sh <name> <worktree> <property> <caught-by (text)> <needs (text)>
N="$1"; W="$2"; P="$3"; CAUGHT="$4"; NEEDS="$5"
D=/verif/seeded/$N; mkdir -p "$D/demo"
cp "$W/mutation.patch" "$D/patch.diff"
cp "$W/NOTES.md" "$D/NOTES.md" 2>/dev/null
rsync -a --exclude target --exclude '*.log' --exclude Cargo.lock "$W/demo/" "$D/demo/" 2>/dev/null
python3 - "$N" "$P" "$CAUGHT" "$NEEDS" <<'PY'
import json,sys
n,p,caught,needs=sys.argv[1:5]
json.dump({"id":n,"breaks_property":p,"needs_to_manifest":needs,
 "author":"independent sub-agent given only the property text and a scratch worktree",
 "confirmed":"existing 53 tests pass with the patch; demo/run.sh exits non-zero with the patch and 0 without (tools/verify_mutation.sh in the scratch worktree)",
 "checks_run":"tools/try_mutation.sh (git apply to /repo, ./check <prop> quick, git checkout -- .)",
 "caught_by":caught}, open('/verif/seeded/%s/meta.json'%n,'w'), indent=1)
PY
du -sh "$D" | cut -f1
