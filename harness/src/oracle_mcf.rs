//! C14 (placeholder, filled in below)
use crate::oracle_out::Violation;
use crate::refmodel::*;
use serde_json::Value;
use std::collections::BTreeMap;

pub fn check_c14(_instance: Value, _inst: &RefInstance) -> (Vec<Violation>, bool, BTreeMap<String, u64>, String) {
    (vec![], false, BTreeMap::new(), String::new())
}
