//! Oracles over the returned JSON (C01-C05, C07): everything is recomputed from the input
//! through REF; nothing is read back from repo data structures.

use crate::refmodel::*;
use serde_json::Value;
use std::collections::{BTreeMap, BTreeSet};

#[derive(Clone, Debug)]
pub struct Violation {
    pub prop: &'static str,
    pub check: String,
    pub msg: String,
}

pub fn viol(prop: &'static str, check: &str, msg: String) -> Violation {
    Violation {
        prop,
        check: check.to_string(),
        msg,
    }
}

pub const OVERFLOW_ID: &str = "OVERFLOW_DEPOT";

#[derive(Clone, Debug, Default)]
pub struct DhtEntry {
    pub origin: String,
    pub destination: String,
    pub departure: String,
    pub arrival: String,
}

#[derive(Clone, Debug, Default)]
pub struct OutVehicle {
    pub id: String,
    pub vtype_id: String,
    pub start_depot: String,
    pub end_depot: String,
    /// (activity id, origin/location, destination/location, start, end) as listed
    pub segs: Vec<(String, String, String, String, String)>,
    pub slots: Vec<(String, String, String, String)>,
    pub dhts: Vec<DhtEntry>,
}

#[derive(Clone, Debug, Default)]
pub struct OutTrip {
    pub id: String,
    pub origin: String,
    pub destination: String,
    pub start: String,
    pub end: String,
    pub vtype_id: Option<String>,
    pub formation: Vec<String>,
}

#[derive(Clone, Debug, Default)]
pub struct Output {
    pub objective: BTreeMap<String, i64>,
    pub objective_keys: Vec<String>,
    pub vehicles: Vec<OutVehicle>,
    pub cycles: Vec<(String, Vec<Vec<String>>)>,
    pub trips: Vec<OutTrip>,
    pub slots: Vec<OutTrip>,
    pub dhts: Vec<(DhtEntry, Vec<String>)>,
    pub depot_loads: Vec<(String, Vec<(String, u64)>)>,
}

fn s(v: &Value, k: &str) -> Result<String, String> {
    v.get(k)
        .and_then(|x| x.as_str())
        .map(|x| x.to_string())
        .ok_or_else(|| format!("output: missing string '{}'", k))
}
fn arr<'a>(v: &'a Value, k: &str) -> Result<&'a Vec<Value>, String> {
    v.get(k)
        .and_then(|x| x.as_array())
        .ok_or_else(|| format!("output: missing array '{}'", k))
}
fn strs(v: &Value, k: &str) -> Result<Vec<String>, String> {
    arr(v, k)?
        .iter()
        .map(|x| x.as_str().map(|y| y.to_string()).ok_or_else(|| format!("output: non-string in '{}'", k)))
        .collect()
}

pub fn parse_output(out: &Value) -> Result<Output, String> {
    let mut o = Output::default();
    let ov = out
        .get("objectiveValue")
        .and_then(|x| x.as_object())
        .ok_or("output: missing objectiveValue")?;
    for (k, v) in ov {
        o.objective_keys.push(k.clone());
        let n = v
            .as_i64()
            .or_else(|| v.as_f64().map(|f| f as i64))
            .ok_or_else(|| format!("output: objective component {} not a number", k))?;
        o.objective.insert(k.clone(), n);
    }
    let sch = out.get("schedule").ok_or("output: missing schedule")?;
    for f in arr(sch, "fleet")? {
        let vt = s(f, "vehicleType")?;
        for v in arr(f, "vehicles")? {
            let mut ov = OutVehicle {
                id: s(v, "id")?,
                vtype_id: vt.clone(),
                start_depot: s(v, "startDepot")?,
                end_depot: s(v, "endDepot")?,
                ..Default::default()
            };
            for d in arr(v, "departureSegments")? {
                ov.segs.push((
                    s(d, "departureSegment")?,
                    s(d, "origin")?,
                    s(d, "destination")?,
                    s(d, "departure")?,
                    s(d, "arrival")?,
                ));
            }
            if let Some(ms) = v.get("maintenanceSlots").and_then(|x| x.as_array()) {
                for d in ms {
                    ov.slots
                        .push((s(d, "maintenanceSlot")?, s(d, "location")?, s(d, "start")?, s(d, "end")?));
                }
            }
            for d in arr(v, "deadHeadTrips")? {
                ov.dhts.push(DhtEntry {
                    origin: s(d, "origin")?,
                    destination: s(d, "destination")?,
                    departure: s(d, "departure")?,
                    arrival: s(d, "arrival")?,
                });
            }
            o.vehicles.push(ov);
        }
        let mut cycles = vec![];
        if let Some(cs) = f.get("vehicleCycles").and_then(|x| x.as_array()) {
            for c in cs {
                let c = c.as_array().ok_or("output: cycle not an array")?;
                cycles.push(
                    c.iter()
                        .map(|x| x.as_str().map(|y| y.to_string()).ok_or("output: cycle member"))
                        .collect::<Result<Vec<_>, _>>()?,
                );
            }
        }
        o.cycles.push((vt, cycles));
    }
    for d in arr(sch, "departureSegments")? {
        o.trips.push(OutTrip {
            id: s(d, "departureSegment")?,
            origin: s(d, "origin")?,
            destination: s(d, "destination")?,
            start: s(d, "departure")?,
            end: s(d, "arrival")?,
            vtype_id: Some(s(d, "vehicleType")?),
            formation: strs(d, "formation")?,
        });
    }
    if let Some(ms) = sch.get("maintenanceSlots").and_then(|x| x.as_array()) {
        for d in ms {
            let loc = s(d, "location")?;
            o.slots.push(OutTrip {
                id: s(d, "maintenanceSlot")?,
                origin: loc.clone(),
                destination: loc,
                start: s(d, "start")?,
                end: s(d, "end")?,
                vtype_id: None,
                formation: strs(d, "formation")?,
            });
        }
    }
    for d in arr(sch, "deadHeadTrips")? {
        o.dhts.push((
            DhtEntry {
                origin: s(d, "origin")?,
                destination: s(d, "destination")?,
                departure: s(d, "departure")?,
                arrival: s(d, "arrival")?,
            },
            strs(d, "formation")?,
        ));
    }
    for d in arr(sch, "depotLoads")? {
        let mut loads = vec![];
        for l in arr(d, "load")? {
            loads.push((
                s(l, "vehicleType")?,
                l.get("spawnCount").and_then(|x| x.as_u64()).ok_or("output: spawnCount")?,
            ));
        }
        o.depot_loads.push((s(d, "depot")?, loads));
    }
    Ok(o)
}

fn depot_ref(inst: &RefInstance, id: &str) -> Option<DepotRef> {
    if id == OVERFLOW_ID {
        Some(DepotRef::Overflow)
    } else {
        inst.depot_by_id(id).map(DepotRef::Real)
    }
}

/// Build the schedule-as-data from the *vehicle view* plus the trip view's formations.
/// Unknown ids are reported by the C01/C03 oracles; here they are skipped.
pub fn to_sched_data(inst: &RefInstance, o: &Output) -> SchedData {
    let mut sd = SchedData::default();
    for v in &o.vehicles {
        let vt = match inst.type_by_id(&v.vtype_id) {
            Some(t) => t,
            None => continue,
        };
        let (st, en) = match (depot_ref(inst, &v.start_depot), depot_ref(inst, &v.end_depot)) {
            (Some(a), Some(b)) => (a, b),
            _ => continue,
        };
        let mut acts: Vec<usize> = v
            .segs
            .iter()
            .map(|x| &x.0)
            .chain(v.slots.iter().map(|x| &x.0))
            .filter_map(|id| inst.act_by_id.get(id).copied())
            .collect();
        acts.sort_by_key(|&a| (inst.acts[a].start, inst.acts[a].end, a));
        sd.vehicles.push(VehData {
            id: v.id.clone(),
            vtype: vt,
            start: st,
            end: en,
            acts,
        });
    }
    sd.cycles = vec![vec![]; inst.types.len()];
    for (vt, cs) in &o.cycles {
        if let Some(t) = inst.type_by_id(vt) {
            sd.cycles[t] = cs.clone();
        }
    }
    for t in o.trips.iter().chain(o.slots.iter()) {
        if let Some(&a) = inst.act_by_id.get(&t.id) {
            sd.formations.insert(a, t.formation.clone());
        }
    }
    sd
}

// ---------------------------------------------------------------------------------------------

/// C01: itineraries are time-, place- and type-feasible
pub fn check_c01(inst: &RefInstance, o: &Output, out: &mut Vec<Violation>) {
    for v in &o.vehicles {
        let vt = match inst.type_by_id(&v.vtype_id) {
            Some(t) => t,
            None => {
                out.push(viol("C01", "C01.type_unknown", format!("vehicle {} has unknown type {}", v.id, v.vtype_id)));
                continue;
            }
        };
        for (what, d) in [("start", &v.start_depot), ("end", &v.end_depot)] {
            if depot_ref(inst, d).is_none() {
                out.push(viol("C01", "C01.depot_unknown", format!("vehicle {}: {} depot '{}' is not a depot", v.id, what, d)));
            }
        }
        let mut acts = vec![];
        let mut bad = false;
        for id in v.segs.iter().map(|x| &x.0) {
            match inst.act_by_id.get(id) {
                Some(&a) if inst.acts[a].kind == ActKind::Service => {
                    if inst.acts[a].vtype != Some(vt) {
                        out.push(viol(
                            "C01",
                            "C01.type_mismatch",
                            format!("vehicle {} of type {} serves segment {} of another type", v.id, v.vtype_id, id),
                        ));
                    }
                    acts.push(a);
                }
                _ => {
                    out.push(viol("C01", "C01.activity_unknown", format!("vehicle {} lists unknown segment {}", v.id, id)));
                    bad = true;
                }
            }
        }
        for id in v.slots.iter().map(|x| &x.0) {
            match inst.act_by_id.get(id) {
                Some(&a) if inst.acts[a].kind == ActKind::Maint => acts.push(a),
                _ => {
                    out.push(viol("C01", "C01.activity_unknown", format!("vehicle {} lists unknown slot {}", v.id, id)));
                    bad = true;
                }
            }
        }
        if acts.is_empty() && !bad {
            out.push(viol("C01", "C01.empty", format!("vehicle {} has no activity", v.id)));
        }
        acts.sort_by_key(|&a| (inst.acts[a].start, inst.acts[a].end, a));
        for w in acts.windows(2) {
            if !inst.connectable(w[0], w[1]) {
                let (a, b) = (&inst.acts[w[0]], &inst.acts[w[1]]);
                out.push(viol(
                    "C01",
                    "C01.connect",
                    format!(
                        "vehicle {}: {} (ends {} at {}) cannot be followed by {} (starts {} at {}); needed turnaround {:?}",
                        v.id, a.id, fmt_time(a.end), inst.locs[a.to], b.id, fmt_time(b.start), inst.locs[b.from], inst.need(a, b)
                    ),
                ));
            }
        }
    }
}

/// C02: formation, track and depot limits
pub fn check_c02(inst: &RefInstance, o: &Output, out: &mut Vec<Violation>) -> bool {
    let mut binding = false;
    // vehicle view counts
    let mut count: BTreeMap<usize, u64> = BTreeMap::new();
    for v in &o.vehicles {
        for id in v.segs.iter().map(|x| &x.0).chain(v.slots.iter().map(|x| &x.0)) {
            if let Some(&a) = inst.act_by_id.get(id) {
                *count.entry(a).or_insert(0) += 1;
            }
        }
    }
    for t in o.trips.iter().chain(o.slots.iter()) {
        if let Some(&a) = inst.act_by_id.get(&t.id) {
            let k = (t.formation.len() as u64).max(count.get(&a).copied().unwrap_or(0));
            if let Some(l) = inst.acts[a].limit() {
                if k >= l {
                    binding = true;
                }
                if k > l {
                    let act = &inst.acts[a];
                    let (chk, what) = match act.kind {
                        ActKind::Maint => ("C02.tracks", "track count".to_string()),
                        ActKind::Service => (
                            match (act.type_limit, act.seg_limit) {
                                (None, Some(_)) => "C02.formation_segment_only",
                                (Some(_), None) => "C02.formation_type_only",
                                _ => "C02.formation_both",
                            },
                            format!("formation limit (type {:?}, route segment {:?})", act.type_limit, act.seg_limit),
                        ),
                    };
                    out.push(viol("C02", chk, format!("{} is served by {} vehicles, above its {} = {}", t.id, k, what, l)));
                }
            }
        }
    }
    // depots
    let mut per: BTreeMap<(usize, usize), u64> = BTreeMap::new();
    for v in &o.vehicles {
        if let (Some(DepotRef::Real(d)), Some(t)) = (depot_ref(inst, &v.start_depot), inst.type_by_id(&v.vtype_id)) {
            *per.entry((d, t)).or_insert(0) += 1;
        }
    }
    for (d, dep) in inst.depots.iter().enumerate() {
        let total: u64 = per.iter().filter(|((dd, _), _)| *dd == d).map(|(_, n)| *n).sum();
        if dep.total != UNLIMITED && total >= dep.total && total > 0 {
            binding = true;
        }
        if total > dep.total {
            out.push(viol("C02", "C02.depot_total", format!("{} vehicles start at depot {} with capacity {}", total, dep.id, dep.total)));
        }
        for t in 0..inst.types.len() {
            let n = per.get(&(d, t)).copied().unwrap_or(0);
            if n > dep.cap_for(t) {
                out.push(viol(
                    "C02",
                    if dep.per_type[t].is_none() { "C02.depot_type_not_allowed" } else { "C02.depot_type" },
                    format!("{} vehicles of type {} start at depot {} which allows {}", n, inst.types[t].id, dep.id, dep.cap_for(t)),
                ));
            }
        }
    }
    binding
}

fn same_time(a: &str, b: i64) -> bool {
    parse_time(a).map(|x| x == b).unwrap_or(false)
}

/// C03: completeness and agreement of the two views
pub fn check_c03(inst: &RefInstance, o: &Output, out: &mut Vec<Violation>) {
    // trip view lists every activity exactly once with the input's own data
    let mut seen: BTreeMap<usize, usize> = BTreeMap::new();
    for (t, is_slot) in o.trips.iter().map(|t| (t, false)).chain(o.slots.iter().map(|t| (t, true))) {
        match inst.act_by_id.get(&t.id) {
            Some(&a) if (inst.acts[a].kind == ActKind::Maint) == is_slot => {
                *seen.entry(a).or_insert(0) += 1;
                let act = &inst.acts[a];
                if t.origin != inst.locs[act.from]
                    || t.destination != inst.locs[act.to]
                    || !same_time(&t.start, act.start)
                    || !same_time(&t.end, act.end)
                {
                    out.push(viol(
                        "C03",
                        "C03.trip_data",
                        format!(
                            "{}: listed {}->{} {}..{} but input says {}->{} {}..{}",
                            t.id, t.origin, t.destination, t.start, t.end, inst.locs[act.from], inst.locs[act.to], fmt_time(act.start), fmt_time(act.end)
                        ),
                    ));
                }
                if let (Some(vt), Some(at)) = (&t.vtype_id, act.vtype) {
                    if *vt != inst.types[at].id {
                        out.push(viol("C03", "C03.trip_type", format!("{}: listed type {} but route prescribes {}", t.id, vt, inst.types[at].id)));
                    }
                }
            }
            _ => out.push(viol("C03", "C03.trip_unknown", format!("trip view lists {} which is not in the input", t.id))),
        }
    }
    for a in 0..inst.acts.len() {
        let n = seen.get(&a).copied().unwrap_or(0);
        if n != 1 {
            out.push(viol("C03", "C03.trip_count", format!("{} is listed {} times in the trip view", inst.acts[a].id, n)));
        }
    }
    // vehicle view: data of listed activities, no duplicates inside a vehicle
    let mut members: BTreeMap<usize, Vec<String>> = BTreeMap::new();
    let mut ids_seen = BTreeSet::new();
    for v in &o.vehicles {
        if !ids_seen.insert(v.id.clone()) {
            out.push(viol("C03", "C03.vehicle_id_dup", format!("vehicle id {} appears twice", v.id)));
        }
        let mut own = BTreeSet::new();
        for (id, from, to, st, en) in &v.segs {
            if let Some(&a) = inst.act_by_id.get(id) {
                let act = &inst.acts[a];
                if *from != inst.locs[act.from] || *to != inst.locs[act.to] || !same_time(st, act.start) || !same_time(en, act.end) {
                    out.push(viol("C03", "C03.vehicle_trip_data", format!("vehicle {} lists {} with data differing from the input", v.id, id)));
                }
                if !own.insert(a) {
                    out.push(viol("C03", "C03.vehicle_lists_twice", format!("vehicle {} lists {} twice", v.id, id)));
                }
                members.entry(a).or_default().push(v.id.clone());
            }
        }
        for (id, loc, st, en) in &v.slots {
            if let Some(&a) = inst.act_by_id.get(id) {
                let act = &inst.acts[a];
                if *loc != inst.locs[act.from] || !same_time(st, act.start) || !same_time(en, act.end) {
                    out.push(viol("C03", "C03.vehicle_trip_data", format!("vehicle {} lists {} with data differing from the input", v.id, id)));
                }
                if !own.insert(a) {
                    out.push(viol("C03", "C03.vehicle_lists_twice", format!("vehicle {} lists {} twice", v.id, id)));
                }
                members.entry(a).or_default().push(v.id.clone());
            }
        }
    }
    // formation == set of vehicles whose itinerary contains it
    for t in o.trips.iter().chain(o.slots.iter()) {
        if let Some(&a) = inst.act_by_id.get(&t.id) {
            let mut f = t.formation.clone();
            f.sort();
            let n = f.len();
            f.dedup();
            if f.len() != n {
                out.push(viol("C03", "C03.formation_dup", format!("formation of {} contains a vehicle twice: {:?}", t.id, t.formation)));
            }
            let mut m = members.get(&a).cloned().unwrap_or_default();
            m.sort();
            m.dedup();
            if f != m {
                out.push(viol(
                    "C03",
                    "C03.views_disagree",
                    format!("{}: formation {:?} but the vehicles listing it are {:?}", t.id, t.formation, m),
                ));
            }
        }
    }
    // depot loads
    let mut recount: BTreeMap<(String, String), u64> = BTreeMap::new();
    for v in &o.vehicles {
        *recount.entry((v.start_depot.clone(), v.vtype_id.clone())).or_insert(0) += 1;
    }
    let mut listed: BTreeMap<(String, String), u64> = BTreeMap::new();
    for (d, loads) in &o.depot_loads {
        if depot_ref(inst, d).is_none() {
            out.push(viol("C03", "C03.depot_load_unknown", format!("depotLoads lists unknown depot {}", d)));
        }
        for (t, n) in loads {
            if listed.insert((d.clone(), t.clone()), *n).is_some() {
                out.push(viol("C03", "C03.depot_load_dup", format!("depotLoads lists ({}, {}) twice", d, t)));
            }
        }
    }
    let keys: BTreeSet<_> = recount.keys().chain(listed.keys()).cloned().collect();
    for k in keys {
        let a = recount.get(&k).copied().unwrap_or(0);
        let b = listed.get(&k).copied().unwrap_or(0);
        if a != b {
            out.push(viol("C03", "C03.depot_load", format!("depot {} type {}: load says {} but {} vehicles start there", k.0, k.1, b, a)));
        }
    }
    // dead-head trips of each vehicle == its location changes, inside the gaps
    let mut expected_global: Vec<(String, String, String, String, String)> = vec![];
    for v in &o.vehicles {
        let (st, en) = match (depot_ref(inst, &v.start_depot), depot_ref(inst, &v.end_depot)) {
            (Some(a), Some(b)) => (a, b),
            _ => continue,
        };
        let mut acts: Vec<usize> = v
            .segs
            .iter()
            .map(|x| &x.0)
            .chain(v.slots.iter().map(|x| &x.0))
            .filter_map(|id| inst.act_by_id.get(id).copied())
            .collect();
        acts.sort_by_key(|&a| (inst.acts[a].start, inst.acts[a].end, a));
        // stops: (location name, earliest departure from it, latest arrival at next)
        let loc_name = |d: DepotRef| -> String {
            match d {
                DepotRef::Real(i) => inst.locs[inst.depots[i].loc].clone(),
                DepotRef::Overflow => "NOWHERE".to_string(),
            }
        };
        // sequence of (end location, end time option) -> (start location, start time option)
        let mut legs: Vec<(String, Option<i64>, String, Option<i64>)> = vec![];
        let mut prev_loc = loc_name(st);
        let mut prev_end: Option<i64> = None;
        for &a in &acts {
            let act = &inst.acts[a];
            legs.push((prev_loc.clone(), prev_end, inst.locs[act.from].clone(), Some(act.start)));
            prev_loc = inst.locs[act.to].clone();
            prev_end = Some(act.end);
        }
        legs.push((prev_loc, prev_end, loc_name(en), None));
        let changes: Vec<_> = legs.into_iter().filter(|l| l.0 != l.2).collect();
        if changes.len() != v.dhts.len() {
            out.push(viol(
                "C03",
                "C03.deadhead_count",
                format!("vehicle {} changes location {} times but lists {} dead-head trips", v.id, changes.len(), v.dhts.len()),
            ));
            continue;
        }
        for (c, d) in changes.iter().zip(v.dhts.iter()) {
            if c.0 != d.origin || c.2 != d.destination {
                out.push(viol(
                    "C03",
                    "C03.deadhead_endpoints",
                    format!("vehicle {}: dead-head {}->{} listed where the itinerary moves {}->{}", v.id, d.origin, d.destination, c.0, c.2),
                ));
                continue;
            }
            if c.0 == "NOWHERE" || c.2 == "NOWHERE" {
                continue; // overflow legs: endpoints only
            }
            let dep = parse_time(&d.departure);
            let arr = parse_time(&d.arrival);
            match (dep, arr) {
                (Ok(dep), Ok(arr)) => {
                    let ok_lo = c.1.map(|e| dep >= e).unwrap_or(true);
                    let ok_hi = c.3.map(|s| arr <= s).unwrap_or(true);
                    if !ok_lo || !ok_hi || arr < dep {
                        out.push(viol(
                            "C03",
                            "C03.deadhead_gap",
                            format!(
                                "vehicle {}: dead-head {}->{} {}..{} does not lie inside the gap [{:?},{:?}]",
                                v.id, d.origin, d.destination, d.departure, d.arrival, c.1.map(fmt_time), c.3.map(fmt_time)
                            ),
                        ));
                    }
                }
                _ => out.push(viol("C03", "C03.deadhead_time", format!("vehicle {}: dead-head trip with unparsable time {} / {}", v.id, d.departure, d.arrival))),
            }
            expected_global.push((d.origin.clone(), d.destination.clone(), d.departure.clone(), d.arrival.clone(), v.id.clone()));
        }
        // overflow legs also appear in the global list
        for (c, d) in changes.iter().zip(v.dhts.iter()) {
            if c.0 == "NOWHERE" || c.2 == "NOWHERE" {
                expected_global.push((d.origin.clone(), d.destination.clone(), d.departure.clone(), d.arrival.clone(), v.id.clone()));
            }
        }
    }
    // The top-level dead-head list is the trip view of the same movements: every dead-head trip of a
    // vehicle must appear there with that vehicle in its formation (entries may be shared by coupled
    // vehicles; multiplicities and ids are not demanded).
    if out.iter().all(|v| !v.check.starts_with("C03.deadhead")) {
        for (origin, destination, departure, arrival, vid) in &expected_global {
            let found = o.dhts.iter().any(|(d, f)| d.origin == *origin && d.destination == *destination && d.departure == *departure && d.arrival == *arrival && f.iter().any(|x| x == vid));
            if !found {
                out.push(viol(
                    "C03",
                    "C03.deadhead_missing_in_trip_view",
                    format!("dead-head trip {}->{} {}..{} of vehicle {} is not in the top-level deadHeadTrips list", origin, destination, departure, arrival, vid),
                ));
                break;
            }
        }
    }
}

/// C04: reported objective == independent evaluation. Returns the REF objective.
pub fn check_c04(inst: &RefInstance, o: &Output, sd: &SchedData, out: &mut Vec<Violation>) -> Option<RefObjective> {
    let r = match inst.evaluate(sd, None) {
        Ok(r) => r,
        Err(e) => {
            out.push(viol("C04", "C04.unevaluable", e));
            return None;
        }
    };
    let expect_keys = ["unservedPassengers", "maintenanceViolation", "vehicleCount", "costs"];
    for k in expect_keys {
        if !o.objective.contains_key(k) {
            out.push(viol("C04", "C04.component_missing", format!("objectiveValue has no component {}", k)));
            return Some(r);
        }
    }
    let g = |k: &str| o.objective[k];
    if g("unservedPassengers") != r.unserved as i64 {
        out.push(viol("C04", "C04.unserved", format!("reported unservedPassengers {} but the returned formations leave {}", g("unservedPassengers"), r.unserved)));
    }
    if g("vehicleCount") != r.vehicles as i64 {
        out.push(viol("C04", "C04.vehicle_count", format!("reported vehicleCount {} but the fleet lists {}", g("vehicleCount"), r.vehicles)));
    }
    if r.exact {
        if g("costs") != r.costs as i64 {
            out.push(viol("C04", "C04.costs", format!("reported costs {} but the returned itineraries cost {}", g("costs"), r.costs)));
        }
        if g("maintenanceViolation") != r.violation {
            out.push(viol(
                "C04",
                "C04.violation",
                format!("reported maintenanceViolation {} but the returned cycles give {}", g("maintenanceViolation"), r.violation),
            ));
        }
    } else {
        if g("costs") < r.costs as i64 {
            out.push(viol("C04", "C04.costs_overflow_lb", format!("reported costs {} below the finite part {}", g("costs"), r.costs)));
        }
        if g("maintenanceViolation") < r.violation {
            out.push(viol(
                "C04",
                "C04.violation_overflow_lb",
                format!("reported maintenanceViolation {} below the finite part {}", g("maintenanceViolation"), r.violation),
            ));
        }
    }
    Some(r)
}

/// C05: cycles partition each type's vehicles; successor starts where predecessor ends
pub fn check_c05(inst: &RefInstance, o: &Output, out: &mut Vec<Violation>) -> bool {
    let mut nontrivial = false;
    let by_id: BTreeMap<&str, &OutVehicle> = o.vehicles.iter().map(|v| (v.id.as_str(), v)).collect();
    // The README lists vehicleCycles as "only if maintenance slots are given in input": an answer
    // without any cycle for an instance without slots is not judged here.
    if !inst.has_slots && o.cycles.iter().all(|(_, c)| c.iter().all(|x| x.is_empty())) {
        return false;
    }
    for (vt, cycles) in &o.cycles {
        if inst.type_by_id(vt).is_none() {
            out.push(viol("C05", "C05.type_unknown", format!("fleet of unknown type {}", vt)));
            continue;
        }
        let mut want: Vec<&str> = o.vehicles.iter().filter(|v| v.vtype_id == *vt).map(|v| v.id.as_str()).collect();
        want.sort();
        let mut got: Vec<&str> = cycles.iter().flatten().map(|x| x.as_str()).collect();
        got.sort();
        if want != got {
            out.push(viol(
                "C05",
                "C05.partition",
                format!("type {}: cycles contain {:?} but the vehicles are {:?}", vt, got, want),
            ));
            continue;
        }
        for c in cycles {
            let mut starts = BTreeSet::new();
            for i in 0..c.len() {
                let v = by_id[c[i].as_str()];
                let w = by_id[c[(i + 1) % c.len()].as_str()];
                starts.insert(v.start_depot.clone());
                if v.end_depot != w.start_depot {
                    out.push(viol(
                        "C05",
                        if c.len() == 1 { "C05.successor_depot_single" } else { "C05.successor_depot" },
                        format!("type {}: {} ends in {} but its successor {} starts in {}", vt, v.id, v.end_depot, w.id, w.start_depot),
                    ));
                }
            }
            if c.len() >= 2 && starts.len() >= 2 {
                nontrivial = true;
            }
        }
    }
    // consequence: per (depot, type) starts == ends
    let mut bal: BTreeMap<(String, String), i64> = BTreeMap::new();
    for v in &o.vehicles {
        *bal.entry((v.start_depot.clone(), v.vtype_id.clone())).or_insert(0) += 1;
        *bal.entry((v.end_depot.clone(), v.vtype_id.clone())).or_insert(0) -= 1;
    }
    if out.iter().all(|v| v.prop != "C05") {
        for (k, b) in bal {
            if b != 0 {
                out.push(viol("C05", "C05.balance", format!("depot {} type {}: starts minus ends = {}", k.0, k.1, b)));
            }
        }
    }
    nontrivial
}

/// C07: demand covered as far as limits allow
pub fn check_c07(inst: &RefInstance, o: &Output, out: &mut Vec<Violation>) -> bool {
    let mut nontrivial = false;
    let lb = inst.unserved_lower_bound();
    if let Some(&u) = o.objective.get("unservedPassengers") {
        if u != lb as i64 {
            out.push(viol("C07", "C07.total", format!("unservedPassengers {} but the instance's lower bound is {}", u, lb)));
        }
    }
    for t in &o.trips {
        if let Some(&a) = inst.act_by_id.get(&t.id) {
            let req = inst.required(a);
            let k = t.formation.len() as u64;
            let lim = inst.acts[a].limit();
            if req >= 2 || lim.map(|l| req > l).unwrap_or(false) {
                nontrivial = true;
            }
            match lim {
                Some(l) if req > l => {
                    if k != l {
                        let act = &inst.acts[a];
                        let chk = match (act.type_limit, act.seg_limit) {
                            (None, Some(_)) => "C07.capped_segment_only",
                            _ => "C07.capped",
                        };
                        out.push(viol("C07", chk, format!("{} needs {} vehicles, limit {}, but is served by {}", t.id, req, l, k)));
                    }
                }
                _ => {
                    if k < req {
                        out.push(viol("C07", "C07.undercovered", format!("{} needs {} vehicles but is served by {}", t.id, req, k)));
                    }
                }
            }
        }
    }
    nontrivial
}
