//! rssv — deterministic simulation harness for rssched-solver (see /verif/DESIGN.md)

mod adapter;
mod check;
mod driver;
mod gen;
mod oracle_mcf;
mod oracle_net;
mod oracle_out;
mod prelude;
mod refmodel;
mod refstate;
mod rng;
mod seams;
mod selftest;
mod shrink;
mod sim_a;
mod sim_b;
mod sim_b_tour;
mod sim_b_trans;
mod sim_b_walk;
mod sim_c;
mod worker;

use std::collections::BTreeSet;
use std::path::Path;

fn main() {
    let args: Vec<String> = std::env::args().collect();
    let code = match args.get(1).map(|s| s.as_str()) {
        Some("worker") => {
            worker::worker_main();
            0
        }
        Some("check") => {
            let prop = args.get(2).cloned().unwrap_or_default();
            let tier = args
                .get(3)
                .cloned()
                .or_else(|| std::env::var("VERIF_TIER").ok())
                .unwrap_or_else(|| "quick".to_string());
            check::run_check(&prop, &tier)
        }
        Some("replay") => check::run_replay(Path::new(args.get(2).map(|s| s.as_str()).unwrap_or(""))),
        Some("minimise") => {
            // rssv minimise <replay file>: shrink the case of a replay-like file in place
            let path = args.get(2).cloned().unwrap_or_default();
            let s = std::fs::read_to_string(&path).expect("read");
            let mut r: serde_json::Value = serde_json::from_str(&s).expect("json");
            let prop = r["property"].as_str().unwrap_or("").to_string();
            let chk = r["check"].as_str().unwrap_or("").to_string();
            let profile = r["profile"].as_str().unwrap_or("release").to_string();
            let (c, n) = shrink::minimise(&profile, &r["case"], &prop, &chk, check::cpu_budget("quick"), 400);
            r["case"] = c;
            r["minimised"] = serde_json::json!(true);
            r["shrink_executions"] = serde_json::json!(n);
            std::fs::write(&path, serde_json::to_string_pretty(&r).unwrap()).expect("write");
            println!("minimised with {} executions", n);
            0
        }
        Some("selftest") => selftest::run(args.get(2).map(|s| s.as_str()).unwrap_or("quick")),
        Some("gen") => {
            let sim = args.get(2).map(|s| s.as_str()).unwrap_or("a");
            let focus = args.get(3).map(|s| s.as_str()).unwrap_or("C01");
            let seed: u64 = args.get(4).and_then(|s| s.parse().ok()).unwrap_or(1);
            println!("{}", serde_json::to_string_pretty(&worker::gen_case(sim, seed, focus)).unwrap());
            0
        }
        Some("exec") => {
            // execute a case file in-process (debugging aid): rssv exec <file> [props..]
            seams::install_panic_hook();
            let s = std::fs::read_to_string(args.get(2).expect("file")).expect("read");
            let mut v: serde_json::Value = serde_json::from_str(&s).expect("json");
            if v.get("case").is_some() {
                v = v["case"].clone();
            }
            let want: BTreeSet<String> = args[3..].iter().cloned().collect();
            let saved = seams::gag_stdout();
            let r = worker::exec_case(&v, &want);
            use std::io::Write;
            let mut saved = saved;
            writeln!(saved, "{}", serde_json::to_string_pretty(&r).unwrap()).unwrap();
            0
        }
        _ => {
            eprintln!("usage: rssv check <Cxx> quick|thorough | replay <file> | selftest [quick|thorough] | gen <sim> <focus> <seed> | exec <file> [props] | worker");
            2
        }
    };
    std::process::exit(code);
}
