//! Worker process: executes simulated runs one at a time, reports one JSON line per run on the
//! saved stdout. Protocol (line-delimited JSON on stdin):
//!   {"cmd":"run","id":n,"sim":"a|b|c","focus":"Cxx","seed":u64,"want":[..],"want_case":bool}
//!   {"cmd":"exec","id":n,"case":{..},"want":[..]}
//!   {"cmd":"quit"}
//! Answers: {"start":id} then {"done":id,"result":{..},"case":{..}?}

use serde_json::{json, Value};
use std::collections::BTreeSet;
use std::io::{BufRead, Write};

pub fn gen_case(sim: &str, seed: u64, focus: &str) -> Value {
    match sim {
        "a" => crate::sim_a::gen_case(seed, focus),
        "b" => crate::sim_b::gen_case(seed, focus),
        "c" => crate::sim_c::gen_case(seed, focus),
        _ => json!({"sim": sim, "error": "unknown simulator"}),
    }
}

pub fn exec_case(case: &Value, want: &BTreeSet<String>) -> Value {
    match case["sim"].as_str().unwrap_or("") {
        "a" => crate::sim_a::exec_case(case, want).to_json(),
        "b" => crate::sim_b::exec_case(case, want),
        "c" => crate::sim_c::exec_case(case, want),
        s => json!({"outcome": "invalid_case", "panic": format!("unknown simulator {}", s), "violations": []}),
    }
}

pub fn worker_main() {
    let mut report = crate::seams::gag_stdout();
    crate::seams::install_panic_hook();
    let stdin = std::io::stdin();
    for line in stdin.lock().lines() {
        let line = match line {
            Ok(l) => l,
            Err(_) => break,
        };
        if line.trim().is_empty() {
            continue;
        }
        let cmd: Value = match serde_json::from_str(&line) {
            Ok(v) => v,
            Err(e) => {
                let _ = writeln!(report, "{}", json!({"error": format!("bad command: {}", e)}));
                continue;
            }
        };
        let id = cmd["id"].as_u64().unwrap_or(0);
        let want: BTreeSet<String> = cmd["want"]
            .as_array()
            .map(|a| a.iter().filter_map(|x| x.as_str().map(|s| s.to_string())).collect())
            .unwrap_or_default();
        match cmd["cmd"].as_str() {
            Some("quit") => break,
            Some("run") => {
                let _ = writeln!(report, "{}", json!({"start": id}));
                let _ = report.flush();
                let sim = cmd["sim"].as_str().unwrap_or("a");
                let focus = cmd["focus"].as_str().unwrap_or("");
                let seed = cmd["seed"].as_u64().unwrap_or(0);
                let case = gen_case(sim, seed, focus);
                let mut result = exec_case(&case, &want);
                let case = match result.get("case_override") {
                    Some(c) if !c.is_null() => c.clone(),
                    _ => case,
                };
                if let Some(o) = result.as_object_mut() {
                    o.remove("case_override");
                }
                let has_viol = result["violations"].as_array().map(|a| !a.is_empty()).unwrap_or(false);
                let want_case = cmd["want_case"].as_bool().unwrap_or(false);
                let mut ans = json!({"done": id, "seed": seed, "result": result});
                if has_viol || want_case {
                    ans["case"] = case;
                }
                let _ = writeln!(report, "{}", ans);
                let _ = report.flush();
            }
            Some("exec") => {
                let _ = writeln!(report, "{}", json!({"start": id}));
                let _ = report.flush();
                let result = exec_case(&cmd["case"], &want);
                let _ = writeln!(report, "{}", json!({"done": id, "result": result}));
                let _ = report.flush();
            }
            _ => {
                let _ = writeln!(report, "{}", json!({"error": "unknown cmd"}));
            }
        }
    }
}
