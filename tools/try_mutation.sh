#!/bin/bash
# usage: try_mutation.sh <patch> <prop> [<prop>...]
# Applies the patch to a scratch worktree of /repo (never to /repo itself) and runs the quick checks of a
# scratch copy of /verif against it (RSSV_REPO), so that neither /repo nor /verif/evidence are touched.
P="$(readlink -f "$1")"; shift
WT=/tmp/mutrepo; VC=/tmp/mutverif
if [ ! -d "$WT/.git" ] && [ ! -f "$WT/.git" ]; then git -C /repo worktree add -q --detach "$WT" HEAD || exit 2; fi
git -C "$WT" checkout -q --detach "$(git -C /repo rev-parse HEAD)" 2>/dev/null; git -C "$WT" checkout -q -- . ; git -C "$WT" clean -qfd -e target
git -C "$WT" apply "$P" || { echo "patch does not apply"; exit 2; }
mkdir -p "$VC"; rsync -a --delete --exclude target --exclude .git --exclude replays --exclude evidence /verif/ "$VC/"; mkdir -p "$VC/replays" "$VC/evidence"
for prop in "$@"; do
  out=$(cd "$VC" && RSSV_REPO="$WT" RSSV_VERIF_DIR="$VC" RSSV_TARGET_DIR="$VC/target" timeout 1800 ./check $prop ${TIER:-quick} 2>&1); rc=$?
  echo "--- $prop exit=$rc"; echo "$out" | grep -E "^violation|^VIOLATION|^property|harness error|KNOWN" | cut -c1-400 | head -12
done
git -C "$WT" checkout -q -- .
