#!/bin/bash
# usage: verify_mutation.sh <worktree>   -- confirms: tests pass with patch, demo fails with / passes without
W="$1"; cd "$W" || exit 2
echo "== patch:"; cat mutation.patch | head -60
git apply -R --check mutation.patch 2>/dev/null && echo "(patch currently applied)" || { echo "(patch not applied: applying)"; git apply mutation.patch || exit 2; }
echo "== existing tests with patch:"; timeout 900 cargo test --workspace --offline 2>&1 | grep -E "^test result: .* [1-9][0-9]* passed|FAILED|^error" | head
echo "== demo with patch (expect failure):"; (timeout 900 bash demo/run.sh >/tmp/demo_with.log 2>&1; echo "exit=$?")
git apply -R mutation.patch || exit 2
echo "== demo without patch (expect success):"; (timeout 900 bash demo/run.sh >/tmp/demo_without.log 2>&1; echo "exit=$?")
git apply mutation.patch
