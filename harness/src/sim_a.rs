//! SIM-A — pipeline simulation. One run = one call of the real `server::solve_instance`
//! (hooks H1/H2 armed) and, on a second fresh thread with the same hash key, the real
//! `internal::run`, inside a simulator-owned thread/pool/hash-seed environment.

use crate::adapter::{canon, normalized_cycles, Adapter, Cached};
use crate::gen::{gen_instance, GenOpts};
use crate::oracle_out::*;
use crate::refmodel::*;
use crate::rng::{digest_str, Rng};
use crate::seams::{panic_signature, run_isolated};
use rapid_solve::heuristics::Solver;
use serde_json::{json, Value};
use std::collections::{BTreeMap, BTreeSet};

pub fn wants(want: &BTreeSet<String>, p: &str) -> bool {
    want.is_empty() || want.contains(p)
}

/// derive the case of run `seed` (instance, hash key, worker count) for property focus `focus`
pub fn gen_case(seed: u64, focus: &str) -> Value {
    let mut rng = Rng::new(seed);
    let mut g = rng.fork(1);
    let opts = GenOpts {
        need_slots: matches!(focus, "C08" | "C16" | "C15" | "C11") || (focus == "C04" && g.chance(3, 4)) || (matches!(focus, "C05" | "C06" | "C01" | "C03") && g.chance(1, 2)),
        no_type_coupling: focus == "C14",
        max_segments: if focus == "C14" { 9 } else { 12 },
        risky: focus == "C06",
        id_prefix: String::new(),
        ties: matches!(focus, "C17" | "C12" | "C14") && g.chance(2, 3),
        sentinels: true,
        nonzero_diagonal: focus == "C06",
    };
    let (instance, summary) = gen_instance(&mut g, &opts);
    let mut h = rng.fork(2);
    let hash_key = h.next_u64();
    let workers = *h.pick(&[1usize, 1, 1, 2, 4, 8]);
    let mut pr = rng.fork(3);
    let mut case = json!({"sim": "a", "seed": seed, "focus": focus, "instance": instance, "hash_key": hash_key, "workers": workers, "gen": summary});
    if let Some(p) = crate::prelude::gen_prelude(&mut pr, &case["instance"], &opts, 1, 3) {
        case["prelude"] = p;
    }
    case
}

struct StageData {
    tag: &'static str,
    sd: Result<SchedData, String>,
    cached: Cached,
}

struct PipelineRecord {
    out: Value,
    inst_network_ok: Result<(), String>,
    stages: Vec<StageData>,
    optimized_cycles: Option<Vec<Vec<Vec<String>>>>,
    optimized_cached: Vec<(usize, i64, i64)>, // (type, violation, counter) cached in the optimiser's output
    ls_steps: Vec<(Vec<i64>, Option<Vec<i64>>, Vec<i64>, String, Option<Vec<i64>>)>, // objective, previous, getters, canon digest, REF-recomputed vector
    ls_last_canon: Option<String>,
    fixpoint_steps: Option<usize>,
    fixpoint_same: Option<bool>,
    json_matches_final: Option<bool>,
    conv: Option<OverflowConvention>,
    swap_kinds: BTreeSet<String>,
}

fn run_server_pipeline(instance: Value, inst: RefInstance, fixpoint: bool) -> PipelineRecord {
    server::verif_hooks::arm();
    solver::verif_hooks::arm();
    let out = server::solve_instance(instance);
    let stages = server::verif_hooks::take();
    let steps = solver::verif_hooks::take();

    let mut rec = PipelineRecord {
        out,
        inst_network_ok: Ok(()),
        stages: vec![],
        optimized_cycles: None,
        optimized_cached: vec![],
        ls_steps: vec![],
        ls_last_canon: None,
        fixpoint_steps: None,
        fixpoint_same: None,
        json_matches_final: None,
        conv: None,
        swap_kinds: BTreeSet::new(),
    };
    let network = stages.iter().find_map(|s| match s {
        server::verif_hooks::Stage::Loaded(n) => Some(n.clone()),
        _ => None,
    });
    let network = match network {
        Some(n) => n,
        None => {
            rec.inst_network_ok = Err("no 'loaded' stage recorded".into());
            return rec;
        }
    };
    let ad = match Adapter::new(&inst, network.clone()) {
        Ok(a) => a,
        Err(e) => {
            rec.inst_network_ok = Err(e);
            return rec;
        }
    };
    rec.conv = Some(ad.conv);
    let mut final_schedule = None;
    for s in &stages {
        use server::verif_hooks::Stage::*;
        match s {
            Loaded(_) => {}
            StartSchedule(x) | LocalSearchResult(x) | ScheduleWithOptimizedTransitions(x) | FinalSchedule(x) => {
                rec.stages.push(StageData {
                    tag: s.tag(),
                    sd: ad.sched_data(x),
                    cached: ad.cached(x),
                });
                if let FinalSchedule(f) = s {
                    final_schedule = Some(f.clone());
                }
            }
            OptimizedTransitions(m) => {
                let mut cycles = vec![vec![]; inst.types.len()];
                for (vt, tr) in m.iter() {
                    let r = ad.type_to_ref[vt];
                    cycles[r] = tr.cycles_iter().map(|c| c.iter().map(|v| v.to_string()).collect()).collect();
                    rec.optimized_cached.push((r, tr.maintenance_violation(), tr.maintenance_counter()));
                }
                rec.optimized_cached.sort();
                rec.optimized_cycles = Some(cycles);
            }
        }
    }
    if let Some(f) = &final_schedule {
        let j = solution::json_serialisation::schedule_to_json(f);
        rec.json_matches_final = Some(rec.out.get("schedule") == Some(&j));
    }
    for st in &steps {
        let sch = st.solution.get_schedule();
        let getters = ad.cached(sch).vector();
        let sdata = ad.sched_data(sch);
        let truth = sdata
            .as_ref()
            .ok()
            .and_then(|sd| inst.evaluate(sd, Some(ad.conv)).ok())
            .map(|r| vec![r.unserved as i64, r.violation, r.vehicles as i64, r.costs as i64]);
        let c = sdata.map(|sd| canon(&sd, true, true)).unwrap_or_else(|e| e);
        rec.ls_steps.push((st.objective.clone(), st.previous_objective.clone(), getters, digest_str(&c), truth));
        let txt = st.solution.get_print_text();
        let kind = txt.split_whitespace().next().unwrap_or("?").to_string();
        rec.swap_kinds.insert(kind);
        rec.ls_last_canon = Some(c);
    }
    if fixpoint && network.maintenance_considered() {
        // running the search again on its own result must change nothing
        let start = match steps.last() {
            Some(st) => Some(st.solution.clone()),
            None => stages.iter().find_map(|s| match s {
                server::verif_hooks::Stage::StartSchedule(x) => Some(solver::local_search::ScheduleWithInfo::new(
                    x.clone(),
                    solver::local_search::neighborhood::swaps::SwapInfo::NoSwap,
                    "Result from min cost flow solver".to_string(),
                )),
                _ => None,
            }),
        };
        if let Some(start) = start {
            let before = ad.sched_data(start.get_schedule()).map(|sd| canon(&sd, true, true));
            solver::verif_hooks::arm();
            let ls = solver::local_search::build_local_search_solver(network.clone());
            let again = ls.solve(start);
            let n = solver::verif_hooks::take().len();
            rec.fixpoint_steps = Some(n);
            let after = ad.sched_data(again.solution().get_schedule()).map(|sd| canon(&sd, true, true));
            rec.fixpoint_same = Some(before == after);
        }
    }
    rec
}

fn lex_lt(a: &[i64], b: &[i64]) -> bool {
    a < b
}

pub struct RunOutcome {
    pub outcome: String,
    pub panic: Option<String>,
    pub violations: Vec<Violation>,
    pub probes: BTreeMap<String, u64>,
    pub nontrivial: BTreeMap<String, bool>,
    pub digest: String,
    pub stats: Value,
}

impl RunOutcome {
    pub fn to_json(&self) -> Value {
        json!({
            "outcome": self.outcome,
            "panic": self.panic,
            "violations": self.violations.iter().map(|v| json!({"prop": v.prop, "check": v.check, "msg": v.msg})).collect::<Vec<_>>(),
            "probes": self.probes,
            "nontrivial": self.nontrivial,
            "digest": self.digest,
            "stats": self.stats,
        })
    }
}

fn strip_info(v: &Value) -> Value {
    let mut v = v.clone();
    if let Some(o) = v.as_object_mut() {
        o.remove("info");
    }
    v
}

pub fn exec_case(case: &Value, want: &BTreeSet<String>) -> RunOutcome {
    let mut ro = RunOutcome {
        outcome: "ok".into(),
        panic: None,
        violations: vec![],
        probes: BTreeMap::new(),
        nontrivial: BTreeMap::new(),
        digest: String::new(),
        stats: json!({}),
    };
    let instance = case["instance"].clone();
    let hash_key = case["hash_key"].as_u64().unwrap_or(0);
    let workers = case["workers"].as_u64().unwrap_or(1) as usize;
    // process history: another instance solved before this one on the same thread and pool
    let prelude: Option<Value> = case.get("prelude").filter(|p| p.is_object()).cloned();
    // with a prelude everything runs on one pool thread: std's per-thread hash-key counter advances
    // with every map the prelude creates, and in a larger pool the thread on which that happens is
    // not the simulator's choice
    let workers = if prelude.is_some() { 1 } else { workers };
    let inst = match RefInstance::parse(&instance) {
        Ok(i) => i,
        Err(e) => {
            ro.outcome = "invalid_case".into();
            ro.panic = Some(e);
            return ro;
        }
    };
    let mut probe = |ro: &mut RunOutcome, name: &str, on: bool| {
        if on {
            *ro.probes.entry(name.to_string()).or_insert(0) += 1;
        } else {
            ro.probes.entry(name.to_string()).or_insert(0);
        }
    };

    // ---------------- C17 / C14 are stage-0 / stage-1 direct calls -----------------------------
    if want.contains("C17") {
        let (i2, inst2) = (instance.clone(), inst.clone());
        let pre = prelude.clone();
        match run_isolated(hash_key, 1, move || {
            if let Some(p) = &pre {
                crate::prelude::run(p, true);
            }
            crate::oracle_net::check_c17(i2, &inst2)
        }) {
            Ok((v, nt, pr)) => {
                ro.violations.extend(v);
                ro.nontrivial.insert("C17".into(), nt);
                for (k, x) in pr {
                    *ro.probes.entry(k).or_insert(0) += x;
                }
            }
            Err(p) => {
                ro.outcome = "panic".into();
                ro.panic = Some(p);
            }
        }
        ro.digest = digest_str(&instance.to_string());
        if want.len() == 1 {
            return ro;
        }
    }
    if want.contains("C14") {
        let (i2, inst2) = (instance.clone(), inst.clone());
        let pre = prelude.clone();
        match run_isolated(hash_key, workers, move || {
            if let Some(p) = &pre {
                crate::prelude::run(p, false);
            }
            crate::oracle_mcf::check_c14(i2, &inst2)
        }) {
            Ok((v, nt, pr, dg)) => {
                ro.violations.extend(v);
                ro.nontrivial.insert("C14".into(), nt);
                for (k, x) in pr {
                    *ro.probes.entry(k).or_insert(0) += x;
                }
                ro.digest = dg;
            }
            Err(p) => {
                ro.outcome = "panic".into();
                ro.panic = Some(p);
            }
        }
        if want.len() == 1 {
            return ro;
        }
    }

    // ---------------- entry point A: server::solve_instance with recorders ---------------------
    let (i2, inst2) = (instance.clone(), inst.clone());
    let fixpoint = wants(want, "C08");
    let pre = prelude.clone();
    let rec = match run_isolated(hash_key, workers, move || {
        if let Some(p) = &pre {
            // through the same recorded pipeline as the instance under test, so that the two solves
            // allocate alike (a memo keyed by an address needs the address to come back)
            match RefInstance::parse(p) {
                Ok(pi) => {
                    let p2 = p.clone();
                    let _ = crate::seams::guarded(move || drop(run_server_pipeline(p2, pi, false)));
                    crate::seams::clear_last_panic();
                }
                Err(_) => {
                    crate::prelude::run(p, false);
                }
            }
        }
        run_server_pipeline(i2, inst2, fixpoint)
    }) {
        Ok(r) => r,
        Err(p) => {
            ro.outcome = "panic".into();
            ro.violations.push(viol("C06", &format!("C06.panic:{}", panic_signature(&p)), format!("server::solve_instance panicked: {}", p)));
            ro.panic = Some(p);
            ro.digest = digest_str(ro.panic.as_deref().unwrap_or(""));
            return ro;
        }
    };
    if let Err(e) = &rec.inst_network_ok {
        ro.violations.push(viol("C17", "C17.identity", e.clone()));
    }
    let mut digest_src = strip_info(&rec.out).to_string();
    probe(&mut ro, "another_instance_solved_before_on_the_same_threads", prelude.is_some());

    let o = match parse_output(&rec.out) {
        Ok(o) => o,
        Err(e) => {
            ro.violations.push(viol("C03", "C03.malformed_output", e));
            ro.digest = digest_str(&digest_src);
            return ro;
        }
    };
    let sd = to_sched_data(&inst, &o);
    let n0 = ro.violations.len();
    check_c01(&inst, &o, &mut ro.violations);
    let binding = check_c02(&inst, &o, &mut ro.violations);
    check_c03(&inst, &o, &mut ro.violations);
    let refobj = check_c04(&inst, &o, &sd, &mut ro.violations);
    let c05_nt = check_c05(&inst, &o, &mut ro.violations);
    let c07_nt = check_c07(&inst, &o, &mut ro.violations);
    // key order of the reported objective (documented priority order)
    let want_keys = ["unservedPassengers", "maintenanceViolation", "vehicleCount", "costs"];
    // (the order of the keys inside the JSON object is not demanded: JSON objects are unordered and the
    //  property is about the order in which the search compares the levels, which H1 records)
    {
        let mut a: Vec<&str> = o.objective_keys.iter().map(|s| s.as_str()).collect();
        let mut b = want_keys.to_vec();
        a.sort();
        b.sort();
        if a != b {
            ro.violations.push(viol("C04", "C04.objective_components", format!("objectiveValue lists {:?}, documented components are {:?}", o.objective_keys, want_keys)));
        }
    }
    let _ = n0;

    // ---------------- probes / non-triviality ---------------------------------------------------
    let uses_overflow = o.vehicles.iter().any(|v| v.start_depot == OVERFLOW_ID || v.end_depot == OVERFLOW_ID);
    probe(&mut ro, "overflow_depot_used", uses_overflow);
    probe(&mut ro, "limit_or_depot_binding", binding);
    probe(&mut ro, "segment_only_limit_present", inst.acts.iter().any(|a| a.kind == ActKind::Service && a.type_limit.is_none() && a.seg_limit.is_some()));
    let mut back_to_back = false;
    for v in &sd.vehicles {
        for w in v.acts.windows(2) {
            if inst.acts[w[0]].end == inst.acts[w[1]].start {
                back_to_back = true;
            }
        }
    }
    probe(&mut ro, "back_to_back_connection_used", back_to_back);
    probe(&mut ro, "dead_heads_forbidden", inst.forbid_dh);
    probe(&mut ro, "tour_with_two_slots", sd.vehicles.iter().any(|v| v.acts.iter().filter(|&&a| inst.acts[a].kind == ActKind::Maint).count() >= 2));
    {
        let mut at: BTreeMap<usize, usize> = BTreeMap::new();
        for d in &inst.depots {
            *at.entry(d.loc).or_insert(0) += 1;
        }
        probe(&mut ro, "several_depots_at_one_location", at.values().any(|n| *n >= 2));
    }
    let max_cycles = o.cycles.iter().map(|(_, c)| c.iter().filter(|x| !x.is_empty()).count()).max().unwrap_or(0);
    probe(&mut ro, "two_or_more_cycles_for_a_type", max_cycles >= 2);
    probe(&mut ro, "cycle_of_length_one", o.cycles.iter().any(|(_, c)| c.iter().any(|x| x.len() == 1)));
    probe(&mut ro, "type_with_zero_vehicles", o.cycles.iter().any(|(t, _)| !o.vehicles.iter().any(|v| v.vtype_id == *t)));
    probe(&mut ro, "local_search_accepted_step", !rec.ls_steps.is_empty());
    for k in &rec.swap_kinds {
        probe(&mut ro, &format!("accepted_{}", k), true);
    }
    let coupled = o.trips.iter().any(|t| t.formation.len() >= 2);
    let has_dht = o.vehicles.iter().any(|v| !v.dhts.is_empty());
    ro.nontrivial.insert("C01".into(), o.vehicles.len() >= 2 && sd.vehicles.iter().any(|v| v.acts.len() >= 2));
    ro.nontrivial.insert("C02".into(), binding);
    ro.nontrivial.insert("C03".into(), coupled && has_dht);
    ro.nontrivial.insert(
        "C04".into(),
        inst.has_slots && (0..inst.types.len()).any(|t| sd.vehicles.iter().filter(|v| v.vtype == t).count() >= 2),
    );
    ro.nontrivial.insert("C05".into(), c05_nt);
    ro.nontrivial.insert("C06".into(), true);
    ro.nontrivial.insert("C07".into(), c07_nt);
    ro.nontrivial.insert("C08".into(), !rec.ls_steps.is_empty());

    // ---------------- stage-level oracles (C04 attribution, C07 history, C08, C15, C16) -------
    let stage = |tag: &str| rec.stages.iter().find(|s| s.tag == tag);
    for st in &rec.stages {
        match &st.sd {
            Err(e) => ro.violations.push(viol("C10", "C10.stage_not_a_schedule", format!("stage {}: {}", st.tag, e))),
            Ok(sdata) => {
                if let Ok(r) = inst.evaluate(sdata, rec.conv) {
                    let c = &st.cached;
                    if c.unserved != r.unserved {
                        ro.violations.push(viol("C04", &format!("C04.stage_{}.unserved", st.tag), format!("stage {}: cached unserved {} vs recomputed {}", st.tag, c.unserved, r.unserved)));
                    }
                    if c.costs != r.costs {
                        ro.violations.push(viol("C04", &format!("C04.stage_{}.costs", st.tag), format!("stage {}: cached costs {} vs recomputed {}", st.tag, c.costs, r.costs)));
                    }
                    if c.violation != r.violation {
                        ro.violations.push(viol("C04", &format!("C04.stage_{}.violation", st.tag), format!("stage {}: cached maintenance violation {} vs recomputed {}", st.tag, c.violation, r.violation)));
                    }
                    if c.vehicles != r.vehicles {
                        ro.violations.push(viol("C04", &format!("C04.stage_{}.vehicles", st.tag), format!("stage {}: vehicle count {} vs {}", st.tag, c.vehicles, r.vehicles)));
                    }
                }
            }
        }
    }
    // C07: no later stage gives up covered demand
    {
        let seq: Vec<(&str, u64)> = ["start", "local_search", "with_optimized_transitions", "final"]
            .iter()
            .filter_map(|t| stage(t).and_then(|s| s.sd.as_ref().ok().and_then(|sdata| inst.evaluate(sdata, rec.conv).ok()).map(|r| (s.tag, r.unserved))))
            .collect();
        for w in seq.windows(2) {
            if w[1].1 > w[0].1 {
                ro.violations.push(viol("C07", "C07.stage_gives_up_demand", format!("unserved rises from {} at stage {} to {} at stage {}", w[0].1, w[0].0, w[1].1, w[1].0)));
            }
        }
        if let (Some(last), Some(r)) = (seq.last(), &refobj) {
            if last.1 != r.unserved {
                ro.violations.push(viol("C07", "C07.stage_json_mismatch", format!("final stage leaves {} unserved but the JSON's formations leave {}", last.1, r.unserved)));
            }
        }
    }
    // C08
    if wants(want, "C08") || wants(want, "C16") {
        let start_getters = stage("start").map(|s| s.cached.vector());
        let mut prev: Option<Vec<i64>> = start_getters.clone();
        // the same order on independently recomputed values: a step must improve the schedule itself,
        // not only its cached figures
        let mut prev_truth: Option<Vec<i64>> = stage("start").and_then(|s| s.sd.as_ref().ok()).and_then(|sd| inst.evaluate(sd, rec.conv).ok()).map(|r| vec![r.unserved as i64, r.violation, r.vehicles as i64, r.costs as i64]);
        for (k, (obj, prev_obj, getters, _, truth)) in rec.ls_steps.iter().enumerate() {
            if let (Some(t), Some(pt)) = (truth, &prev_truth) {
                if !lex_lt(t, pt) {
                    ro.violations.push(viol("C08", "C08.recomputed_objective_not_improving", format!("step {}: recomputed (unserved, violation, vehicles, costs) {:?} is not lexicographically below that of the previous schedule {:?}", k + 1, t, pt)));
                }
            }
            prev_truth = truth.clone();
            if obj.len() != 4 {
                ro.violations.push(viol("C08", "C08.levels", format!("step {}: objective has {} levels", k + 1, obj.len())));
                continue;
            }
            if obj != getters {
                ro.violations.push(viol("C08", "C08.level_order_or_indicator", format!("step {}: recorded objective {:?} but (unserved, violation, vehicles, costs) of that schedule are {:?}", k + 1, obj, getters)));
            }
            if let Some(p) = prev_obj {
                if !lex_lt(obj, p) {
                    ro.violations.push(viol("C08", "C08.not_strictly_improving", format!("step {}: {:?} is not lexicographically below {:?}", k + 1, obj, p)));
                }
                if let Some(pp) = &prev {
                    if pp != p {
                        ro.violations.push(viol("C08", "C08.chain_broken", format!("step {}: search compared against {:?} but the previous accepted schedule has {:?}", k + 1, p, pp)));
                    }
                }
            }
            prev = Some(getters.clone());
        }
        if let (Some(s0), Some(res)) = (start_getters, stage("local_search").map(|s| s.cached.vector())) {
            if res > s0 {
                ro.violations.push(viol("C08", "C08.result_worse_than_start", format!("local search result {:?} is worse than the start solution {:?}", res, s0)));
            }
        }
        if let Some(n) = rec.fixpoint_steps {
            if n != 0 {
                ro.violations.push(viol("C08", "C08.not_a_fixpoint", format!("running the search again on its own result accepted {} more step(s)", n)));
            }
            if rec.fixpoint_same == Some(false) {
                ro.violations.push(viol("C08", "C08.rerun_changes_schedule", "running the search again on its own result returned a different schedule".into()));
            }
        }
        if !inst.has_slots && !rec.ls_steps.is_empty() {
            // not a violation; just not expected by the documented pipeline
            probe(&mut ro, "ls_ran_without_slots", true);
        }
    }
    // C15 pipeline part + C16
    let ls_sd = stage("local_search").and_then(|s| s.sd.as_ref().ok());
    let fin_sd = stage("final").and_then(|s| s.sd.as_ref().ok());
    let wo_sd = stage("with_optimized_transitions").and_then(|s| s.sd.as_ref().ok());
    let mut optimiser_changed = false;
    if let (Some(ls), Some(opt)) = (ls_sd, &rec.optimized_cycles) {
        let a = normalized_cycles(&ls.cycles);
        let b = normalized_cycles(opt);
        optimiser_changed = a != b;
        // C15: same vehicles, (violation, counter) not worse — recomputed by REF on the LS tours
        for t in 0..inst.types.len() {
            let mut va: Vec<&String> = ls.cycles[t].iter().flatten().collect();
            let mut vb: Vec<&String> = opt[t].iter().flatten().collect();
            va.sort();
            vb.sort();
            if va != vb {
                ro.violations.push(viol("C15", "C15.optimiser_vehicle_set", format!("type {}: optimiser returned cycles over {:?}, was given {:?}", inst.types[t].id, vb, va)));
                continue;
            }
            let eval = |cycles: &Vec<Vec<String>>| -> Option<(i64, i64)> {
                let mut viol_sum = 0i64;
                let mut counter = 0i64;
                for c in cycles {
                    let x = inst.cycle_counter(ls, c, rec.conv).ok()??;
                    viol_sum += x.max(0);
                    counter += x;
                }
                Some((viol_sum, counter))
            };
            if let (Some(x), Some(y)) = (eval(&ls.cycles[t]), eval(&opt[t])) {
                if y > x {
                    ro.violations.push(viol("C15", "C15.optimiser_worsens", format!("type {}: (violation, counter) {:?} given, {:?} returned", inst.types[t].id, x, y)));
                }
                if let Some(&(_, cv, cc)) = rec.optimized_cached.iter().find(|(r, _, _)| *r == t) {
                    if (cv, cc) != y {
                        ro.violations.push(viol("C15", "C15.optimiser_cached_totals", format!("type {}: optimiser output caches (violation, counter) {:?}, recomputed {:?}", inst.types[t].id, (cv, cc), y)));
                    }
                }
            }
        }
    }
    probe(&mut ro, "transition_optimiser_changed_a_cycle", optimiser_changed);
    ro.nontrivial.insert("C16".into(), optimiser_changed || !rec.ls_steps.is_empty());
    ro.nontrivial.insert("C15".into(), max_cycles >= 2 || optimiser_changed);
    if wants(want, "C16") {
        // (a) the search's result is the last accepted step (or the start solution)
        if let Some(ls) = ls_sd {
            let c_ls = canon(ls, true, true);
            match (&rec.ls_last_canon, stage("start").and_then(|s| s.sd.as_ref().ok())) {
                (Some(last), _) => {
                    if *last != c_ls {
                        ro.violations.push(viol("C16", "C16.ls_result_not_last_step", "the schedule handed on after local search is not the last accepted step".into()));
                    }
                }
                (None, Some(st)) => {
                    if canon(st, true, true) != c_ls {
                        ro.violations.push(viol("C16", "C16.ls_result_not_start", "no step was accepted but the schedule handed on differs from the start solution".into()));
                    }
                }
                _ => {}
            }
            if let (Some(first), Some(st)) = (rec.ls_steps.first(), stage("start")) {
                if let Some(p) = &first.1 {
                    if *p != st.cached.vector() {
                        ro.violations.push(viol("C16", "C16.ls_not_started_from_start_solution", format!("the search started from objective {:?} but the start solution has {:?}", p, st.cached.vector())));
                    }
                }
            }
        }
        // (b) activities and start depots of the answer are those of the local-search result
        if let (Some(ls), Some(fin)) = (ls_sd, fin_sd) {
            if canon(ls, false, false) != canon(fin, false, false) {
                ro.violations.push(viol("C16", "C16.activities_differ_from_ls_result", "vehicles / activities / start depots of the final schedule differ from the local-search result".into()));
            }
        }
        if let (Some(ls), Some(wo)) = (ls_sd, wo_sd) {
            if canon(ls, false, true) != canon(wo, false, true) {
                ro.violations.push(viol("C16", "C16.set_transitions_changed_tours", "replacing the transitions changed tours".into()));
            }
        }
        // (c) cycles of the answer are the optimiser's cycles
        if let Some(opt) = &rec.optimized_cycles {
            let want_c = normalized_cycles(opt);
            if let Some(wo) = wo_sd {
                if normalized_cycles(&wo.cycles) != want_c {
                    ro.violations.push(viol("C16", "C16.set_transitions_not_applied", "schedule_with_optimized_transitions does not carry the optimiser's cycles".into()));
                }
            }
            if let Some(fin) = fin_sd {
                if normalized_cycles(&fin.cycles) != want_c {
                    ro.violations.push(viol("C16", "C16.final_cycles_not_optimised", format!("final schedule carries cycles {:?} but the optimiser chose {:?}", normalized_cycles(&fin.cycles), want_c)));
                }
                // (d) end depots follow the optimiser's cycles
                for (t, cs) in opt.iter().enumerate() {
                    for c in cs {
                        for i in 0..c.len() {
                            if let (Some(v), Some(w)) = (fin.vehicle(&c[i]), fin.vehicle(&c[(i + 1) % c.len()])) {
                                if v.end != w.start {
                                    ro.violations.push(viol("C16", "C16.end_depots_not_aligned", format!("type {}: {} ends in {:?} but its successor {} in the optimiser's cycle starts in {:?}", inst.types[t].id, v.id, v.end, w.id, w.start)));
                                }
                            }
                        }
                    }
                }
            }
            let json_cycles: Vec<Vec<Vec<String>>> = (0..inst.types.len())
                .map(|t| o.cycles.iter().find(|(id, _)| *id == inst.types[t].id).map(|(_, c)| c.clone()).unwrap_or_default())
                .collect();
            let cycles_omitted_without_slots = !inst.has_slots && json_cycles.iter().all(|c| c.iter().all(|x| x.is_empty()));
            if !cycles_omitted_without_slots && normalized_cycles(&json_cycles) != want_c {
                ro.violations.push(viol("C16", "C16.json_cycles_not_optimised", format!("vehicleCycles {:?} but the optimiser chose {:?}", normalized_cycles(&json_cycles), want_c)));
            }
        } else {
            ro.violations.push(viol("C16", "C16.no_optimiser_stage", "the transition optimisation stage was never reached".into()));
        }
        // (e') the vehicle view of the JSON lists, per vehicle, exactly the activities and depots of the
        //      final schedule (and with that of the local-search result) - read from the JSON, not
        //      through the serialiser
        if let Some(fin) = fin_sd {
            for v in &fin.vehicles {
                match sd.vehicle(&v.id) {
                    None => ro.violations.push(viol("C16", "C16.json_vehicle_missing", format!("vehicle {} of the final schedule is not in the returned fleet", v.id))),
                    Some(j) => {
                        if j.acts != v.acts || j.start != v.start || j.end != v.end || j.vtype != v.vtype {
                            ro.violations.push(viol(
                                "C16",
                                "C16.json_itinerary_differs_from_final_schedule",
                                format!("vehicle {}: the JSON lists activities {:?} ({:?} -> {:?}) but the final schedule has {:?} ({:?} -> {:?})", v.id, j.acts.iter().map(|a| inst.acts[*a].id.clone()).collect::<Vec<_>>(), j.start, j.end, v.acts.iter().map(|a| inst.acts[*a].id.clone()).collect::<Vec<_>>(), v.start, v.end),
                            ));
                        }
                    }
                }
            }
            if sd.vehicles.len() != fin.vehicles.len() {
                ro.violations.push(viol("C16", "C16.json_vehicle_count", format!("the JSON lists {} vehicles, the final schedule has {}", sd.vehicles.len(), fin.vehicles.len())));
            }
        }
        // (e) the JSON is the serialisation of the final schedule
        if rec.json_matches_final == Some(false) {
            ro.violations.push(viol("C16", "C16.json_not_final_schedule", "returned JSON is not schedule_to_json(final schedule)".into()));
        }
        if let (Some(fin), Some(st)) = (fin_sd, stage("final")) {
            let _ = fin;
            let want_obj = st.cached.vector();
            let got: Vec<i64> = want_keys.iter().filter_map(|k| o.objective.get(*k).copied()).collect();
            if got != want_obj {
                ro.violations.push(viol("C16", "C16.json_objective_not_final", format!("objectiveValue {:?} but the final schedule's getters give {:?}", got, want_obj)));
            }
        }
        let tags: Vec<&str> = rec.stages.iter().map(|s| s.tag).collect();
        if tags != ["start", "local_search", "with_optimized_transitions", "final"] {
            ro.violations.push(viol("C16", "C16.stage_sequence", format!("stages recorded: {:?}", tags)));
        }
    }
    if let (Some(ls), Some(fin)) = (ls_sd, fin_sd) {
        let changed = ls.vehicles.iter().any(|v| fin.vehicle(&v.id).map(|w| w.end != v.end).unwrap_or(false));
        probe(&mut ro, "end_depot_reassignment_changed_a_depot", changed);
    }
    for st in &rec.stages {
        digest_src.push_str(&format!("|{}:{:?}", st.tag, st.cached.vector()));
    }
    for s in &rec.ls_steps {
        digest_src.push_str(&format!("|{:?}:{}", s.0, s.3));
    }

    // ---------------- entry point B: internal::run (output oracles only) ----------------------
    if ["C01", "C02", "C03", "C04", "C05", "C07", "C06"].iter().any(|p| want.contains(*p)) || want.is_empty() {
        let i2 = instance.clone();
        match run_isolated(hash_key, workers, move || internal::run(i2)) {
            Err(p) => {
                ro.violations.push(viol("C06", &format!("C06.panic_internal_run:{}", panic_signature(&p)), format!("internal::run panicked: {}", p)));
            }
            Ok(out_b) => {
                digest_src.push_str(&strip_info(&out_b).to_string());
                match parse_output(&out_b) {
                    Err(e) => ro.violations.push(viol("C03", "C03.malformed_output", format!("internal::run: {}", e))),
                    Ok(ob) => {
                        let sdb = to_sched_data(&inst, &ob);
                        let mut vb = vec![];
                        check_c01(&inst, &ob, &mut vb);
                        check_c02(&inst, &ob, &mut vb);
                        check_c03(&inst, &ob, &mut vb);
                        check_c04(&inst, &ob, &sdb, &mut vb);
                        check_c05(&inst, &ob, &mut vb);
                        check_c07(&inst, &ob, &mut vb);
                        for mut v in vb {
                            v.check = format!("{}@internal_run", v.check);
                            v.msg = format!("internal::run: {}", v.msg);
                            ro.violations.push(v);
                        }
                    }
                }
            }
        }
    }
    ro.digest = digest_str(&digest_src);
    ro.stats = json!({
        "vehicles": o.vehicles.len(),
        "ls_steps": rec.ls_steps.len(),
        "uses_overflow": uses_overflow,
        "objective": o.objective,
    });
    ro
}
