//! SIM-B placeholder (filled in below)
use serde_json::{json, Value};
use std::collections::BTreeSet;
pub fn gen_case(seed: u64, focus: &str) -> Value { json!({"sim":"b","seed":seed,"focus":focus}) }
pub fn exec_case(_case: &Value, _want: &BTreeSet<String>) -> Value { json!({"outcome":"invalid_case","panic":"SIM-B not built","violations":[]}) }
pub fn case_candidates(_case: &Value) -> Vec<Value> { vec![] }
